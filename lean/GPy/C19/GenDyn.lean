/-
C19 case generator, round 3: HISTORIES (families H, M, HR).  A case = initial world (Go modules,
files, one or two contexts with their initial `sys.path`) + a list of steps executed in order:

  `P;<ctx>;append;<e>` `P;<ctx>;insert;<i>;<e>` `P;<ctx>;remove;<e>` `P;<ctx>;clear` `P;<ctx>;rebind;<e>,<e>`
  `W;<dir>/<m>.py;SRC` `WX;<dir>/<m>.py` `D;<dir>/<m>.py`       (create/replace, replace by a file that does not compile, delete)
  `R;<ctx>;<dir>;SRC`                                             (RunFile of a script living in <dir>)

`<e>` = directory name (absolute `<root>/<e>`), `.` (relative entry) or `#` (a non-string).
The line starts with `I;<ctx>;<e>,..` sections (initial sys.path of each context).
-/
import GPy.C19.GenBase
import GPy.C19.Dyn
namespace GPy.C19

structure DynCase where
  label : String
  world : World
  steps : List Step
  /-- per step: (class of the step, target module of an attempt, statement form) -/
  info : List (String × String × String) := []

def encPath (l : List PEnt) : String := ",".intercalate (l.map PEnt.render)

def encStep : Step → String
  | .path c (.append e) => s!"P;{c};append;{e.render}"
  | .path c (.insert i e) => s!"P;{c};insert;{i};{e.render}"
  | .path c (.remove e) => s!"P;{c};remove;{e.render}"
  | .path c .clear => s!"P;{c};clear"
  | .path c (.rebind l) => s!"P;{c};rebind;{encPath l}"
  | .write d n (.code b) => s!"W;{d}/{n}.py;{renderBody b}"
  | .write d n .bad => s!"WX;{d}/{n}.py"
  | .remove d n => s!"D;{d}/{n}.py"
  | .run c d b => s!"R;{c};{d};{renderBody b}"

def encodeDyn (c : DynCase) (label : String) : String :=
  let gs := c.world.goMods.map fun (n, impl) =>
    s!"G;{n};" ++ ",".intercalate (impl.globals.map fun (k, v) => s!"{k}={renderGoVal v}") ++ ";" ++
      ",".intercalate impl.methods ++ ";" ++ (match impl.body with | some b => renderBody b | none => "-")
  let is := c.world.ctxs.zipIdx.map fun (x, i) => s!"I;{i};{encPath x.path}"
  let fs := c.world.fs.flatMap fun (d, files) => files.map fun (n, src) =>
    match src with
    | .code b => s!"F;{d}/{n}.py;{renderBody b}"
    | .bad => s!"X;{d}/{n}.py"
  label ++ " " ++ "|".intercalate (gs ++ is ++ fs ++ c.steps.map encStep)

def toSpecWorld (w : World) : Spec.SWorld :=
  { goMods := w.goMods, cwd := w.cwd, fs := w.fs, ctxs := w.ctxs.map fun x => { path := x.path } }

/-- how the (single) tried import statement of an attempt script ended, read off the model's trace -/
def attemptOutcome (target : String) (before after : St) : String :=
  let new := after.trace.drop before.trace.length
  let failed := new.any fun e => match e with | .failed _ => true | _ => false
  let first := new.findSome? fun e => match e with
    | .caught _ n err => if n == "__main__" then some err else none
    | _ => none
  match first with
  | none => "ok"
  | some err =>
    if failed then "bodyraise" else
    match err with
    | .syntaxError => "syntax"
    | .systemError => "relative"
    | .importError => if (after.store.get target).isSome then "missingname" else "notfound"
    | .attributeError => "starattr"
    | .typeError => "startype"
    | .nameError => "name"

def stepCtx : Step → Option Nat
  | .run c _ _ => some c | .path c _ => some c | _ => none

def stepDir : Step → String
  | .run _ d _ => d | _ => ""

/-- the coverage matrix entries of one scenario: for every failed attempt on module N and the NEXT
attempt on N in the same context: failure kind / what changed in between / retry form / retry outcome -/
def matrixTags (c : DynCase) : List String := Id.run do
  let n := c.steps.length
  -- outcomes per step
  let mut w := c.world
  let mut outs : Array String := #[]
  let mut i := 0
  for (s, m) in c.steps.zip (c.info ++ List.replicate n ("", "", "")) do
    let w' := stepO Generated.orders i w s
    let o := match s with
      | .run cx _ _ =>
        if m.1 == "att" then attemptOutcome m.2.1 (w.ctxs.getD cx default).st (w'.ctxs.getD cx default).st else ""
      | _ => ""
    outs := outs.push o
    w := w'
    i := i + 1
  let metas := (c.info ++ List.replicate n ("", "", "")).toArray
  let steps := c.steps.toArray
  let mut tags : List String := []
  for j in [0:n] do
    let mj := metas[j]!
    if mj.1 == "att" && outs[j]! != "ok" && outs[j]! != "" then
      -- next attempt on the same target in the same context
      let mut found := false
      let mut changes : List String := []
      for k in [j+1:n] do
        if found then continue
        let mk := metas[k]!
        if mk.1 == "att" && mk.2.1 == mj.2.1 && stepCtx steps[k]! == stepCtx steps[j]! then
          found := true
          if stepDir steps[k]! != stepDir steps[j]! then changes := changes ++ ["dir"]
          let ch := if changes.isEmpty then "none" else "+".intercalate changes.eraseDups
          tags := tags ++ [s!"mx={outs[j]!}/{ch}/{mk.2.2}/{outs[k]!}"]
        else if mk.1 != "att" && mk.1 != "" then
          -- a change of another context's sys.path is not a change for this context
          match steps[k]! with
          | .path cx _ => if some cx == stepCtx steps[j]! then changes := changes ++ [mk.1] else changes := changes ++ ["otherctx"]
          | _ => changes := changes ++ [mk.1]
        else if mk.1 == "att" then
          changes := changes ++ [if stepCtx steps[k]! == stepCtx steps[j]! then "otherimport" else "otherctx"]
      if !found then tags := tags ++ [s!"mx={outs[j]!}/-/noretry/-"]
  return tags.eraseDups

def mkDynCase (c : DynCase) : Case :=
  let w := runStepsO Generated.orders c.steps 0 c.world
  let modelV := renderWorld w
  let sw := Spec.runSteps c.steps 0 (toSpecWorld c.world)
  let specV := renderSWorld sw
  let evs := w.ctxs.flatMap (·.st.trace)
  let hits := evs.any fun e => match e with | .hit .. => true | _ => false
  let fails := evs.any fun e => match e with | .failed .. => true | _ => false
  let caught := evs.any fun e => match e with | .caught .. => true | _ => false
  let mx := matrixTags c
  let retry := mx.any fun t => (t.splitOn "/noretry").length == 1
  let tags := (if hits || fails || caught then ["nt"] else []) ++ (if fails then ["fail"] else []) ++ (if caught then ["caught"] else [])
    ++ (if hits then ["hit"] else []) ++ (if retry then ["retry"] else []) ++ (if relSafe c.world c.steps then [] else ["UNSAFE"]) ++ mx
  { input := encodeDyn c c.label, modelV := modelV, specV := specV, tags := tags }

/-! ### family H: one context, exhaustive over a fixed alphabet -/

def good1 : Body := [.plain (.log 0), .plain (.bind "x" 1), .plain (.bind "y" 3)]
def good2 : Body := [.plain (.log 0), .plain (.bind "x" 2), .plain (.bind "y" 3), .plain (.bind "_p" 4)]
def raisingImp : Body := [.plain (.log 0), .plain (.bind "x" 5), .plain (.imp "m1"), .plain (.bind "y" 3)]
def raisingName : Body := [.plain (.log 0), .plain (.bind "x" 6), .plain (.mutate "zz" "a" 1), .plain (.bind "y" 3)]
def leaf1 : Body := [.plain (.log 0), .plain (.bind "x" 10)]

def attempt (s : Simple) : Body := [.tried s, .plain (.log 1)]

abbrev Letter := Step × (String × String × String)

/-- attempts: every import form (incl. `__import__`), a missing name, a relative import, a second module,
the repair of a missing name through the shared module object, an attempt issued from another directory -/
def attemptsH (c : Nat) : List Letter :=
  [(.run c "s" (attempt (.imp "m0")), ("att", "m0", "import")),
   (.run c "s" (attempt (.from_ "m0" [("x", "x")])), ("att", "m0", "from")),
   (.run c "s" (attempt (.star "m0")), ("att", "m0", "star")),
   (.run c "s" (attempt (.impAs "m0" "di_a")), ("att", "m0", "dunder")),
   (.run c "s" (attempt (.from_ "m0" [("nope", "fn")])), ("att", "m0", "from-missing")),
   (.run c "s" (attempt (.rel "m0" "x")), ("att", "m0", "relative")),
   (.run c "s" (attempt (.imp "m1")), ("att", "m1", "import")),
   (.run c "s" [.tried (.impAs "m0" "al"), .tried (.mutate "al" "nope" 5), .plain (.log 1)], ("att", "m0", "importas+setattr")),
   (.run c "d1" (attempt (.imp "m0")), ("att", "m0", "import@d1"))]

def pathsH (c : Nat) : List Letter :=
  [(.path c (.append (.abs "d1")), ("pathadd", "", "")),
   (.path c (.insert 0 (.abs "d1")), ("pathadd", "", "")),
   (.path c (.remove (.abs "d0")), ("pathdel", "", "")),
   (.path c .clear, ("pathdel", "", "")),
   (.path c (.rebind [.junk, .abs "d1", .abs "d0"]), ("rebind", "", "")),
   (.path c (.append .rel), ("pathrel", "", ""))]

def fsH : List Letter :=
  [(.write "d0" "m0" (.code good1), ("write", "", "")),
   (.write "d0" "m0" .bad, ("writebad", "", "")),
   (.write "d0" "m0" (.code raisingImp), ("writeraising", "", "")),
   (.write "d0" "m0" (.code raisingName), ("writeraising", "", "")),
   (.remove "d0" "m0", ("remove", "", "")),
   (.write "d0" "m1" (.code leaf1), ("writedep", "", ""))]

def goH : Dict GoImpl :=
  [("g0", { globals := [("g", .int 7), ("_h", .int 8)], methods := ["gf"], body := some [.plain (.log 0), .plain (.bind "g2" 9)] }),
   ("g1", { globals := [("x", .int 70)], methods := [], body := .none })]

/-- initially: `sys.path = [d0]`, `d0` empty, `d1/m0.py` present (reachable only after a path change or via `.` from `d1`) -/
def worldH : World :=
  { goMods := goH, fs := [("d0", []), ("d1", [("m0", .code good2)]), ("s", []), ("cw", [])], ctxs := [{ path := [.abs "d0"] }] }

def caseOf (label : String) (w : World) (ls : List Letter) : DynCase :=
  { label := label, world := w, steps := ls.map (·.1), info := ls.map (·.2) }

/-- all words of length `n` over `alpha` -/
def words {α} (alpha : List α) : Nat → List (List α)
  | 0 => [[]]
  | n + 1 => (words alpha n).flatMap fun w => alpha.map fun a => a :: w

/-! ### family M: two contexts over one file system and one registry -/

def goM : Dict GoImpl :=
  [("g0", { globals := [("g", .int 7)], methods := ["gf"], body := some [.plain (.log 0), .plain (.bind "g2" 9), .plain (.imp "m0"), .plain (.bind "g3" 1)] }),
   ("g1", { globals := [("x", .int 70)], methods := [], body := .none })]

def worldM : World :=
  { goMods := goM, fs := [("d0", []), ("d1", [("m0", .code good2)]), ("s", []), ("cw", [])],
    ctxs := [{ path := [.abs "d0"] }, { path := [.abs "d0"] }] }

def lettersM : List Letter :=
  ([0, 1].flatMap fun c =>
    [(.run c "s" (attempt (.imp "m0")), ("att", "m0", "import")),
     (.run c "s" (attempt (.star "m0")), ("att", "m0", "star")),
     (.run c "s" (attempt (.imp "g0")), ("att", "g0", "import-go")),
     (.path c (.append (.abs "d1")), ("pathadd", "", "")),
     (.path c (.remove (.abs "d0")), ("pathdel", "", ""))]) ++
  [(.write "d0" "m0" (.code good1), ("write", "", "")),
   (.write "d0" "m0" .bad, ("writebad", "", "")),
   (.remove "d0" "m0", ("remove", "", ""))]

/-! ### family HR: seeded random longer histories -/

def leafSimple (r : Rng) : Rng × Simple :=
  let (r, k) := r.nat 4
  let (r, a) := r.pick attrPool
  let (r, v) := r.nat 50
  match k with
  | 0 => (r, .bind a (v : Int))
  | 1 => (r, .setAll (if v % 2 == 0 then [a] else ["x", a]))
  | 2 => (r, .mutate "zz" a (v : Int))          -- NameError: a leaf body that raises
  | _ => (r, .log (v % 5))

def leafBody (r : Rng) (len : Nat) : Rng × Body := Id.run do
  let mut r := r
  let mut b : Body := [.plain (.log 0), .plain (.bind "x" 1)]
  for _ in [0:len] do
    let (r1, s) := leafSimple r
    let (r2, t) := r1.nat 4
    r := r2
    b := b ++ [if t == 0 then .tried s else .plain s]
  return (r, b ++ [.plain (.log 9)])

def dirPool : Array String := #["d0", "d1", "d0", "cw"]
def entPool (rel : Bool) : Array PEnt :=
  if rel then #[.abs "d0", .abs "d1", .rel, .junk, .abs "dx", .rel] else #[.abs "d0", .abs "d1", .abs "d0", .junk, .abs "dx", .abs "cw"]

def randomHistory (r : Rng) : Rng × DynCase := Id.run do
  let mut r := r
  let (r0, relSel) := r.nat 3
  r := r0
  let rel := relSel == 0
  let (r0, nctx) := r.nat 3
  r := r0
  let nctx := if nctx == 0 then 2 else 1
  let body : Rng → Nat → Rng × Body := fun r len => if rel then leafBody r len else randBody r len
  -- initial files
  let mut fs : FS := [("d0", []), ("d1", []), ("s", []), ("cw", [])]
  for i in [0:3] do
    let (r1, w) := r.nat 4
    let (r2, b) := body r1 2
    let (r3, d) := r2.pick dirPool
    r := r3
    if w != 0 then fs := fs.write d (mname i) (.code b)
  let (r1, gb) := leafBody r 1
  r := r1
  let goMods : Dict GoImpl :=
    [("g0", { globals := [("g", .int 7), ("_h", .int 8)], methods := ["gf"], body := some gb }),
     ("g1", { globals := [("x", .int 70), ("y", .int 71)], methods := ["gf"], body := .none })]
  let mut ctxs : List Ctx := []
  for _ in [0:nctx] do
    let (r1, k) := r.nat 3
    r := r1
    ctxs := ctxs ++ [{ path := if k == 0 then [] else if k == 1 then [.abs "d0"] else [.abs "d0", .abs "d1"] }]
  let (r1, len) := r.nat 6
  r := r1
  let mut ls : List Letter := []
  for _ in [0:len + 4] do
    let (r1, k) := r.nat 10
    let (r2, c) := r1.nat nctx
    let (r3, e) := r2.pick (entPool rel)
    let (r4, d) := r3.pick dirPool
    let (r5, mi) := r4.nat 3
    let (r6, v) := r5.nat 8
    r := r6
    if k < 4 then
      -- a script: a few import attempts (all tried), from a random directory
      let (r1, f) := r.nat 16
      let (r2, f2) := r1.nat 16
      let (r3, m2) := r2.nat 3
      let (r4, sd) := r3.nat 4
      r := r4
      let sdir := if rel && sd == 0 then "d1" else if rel && sd == 1 then "d0" else "s"
      let b : Body := [.tried (formOf (safeForm f) (mname mi)), .plain (.log 0), .tried (formOf (safeForm f2) (mname m2)), .plain (.log 1)]
      ls := ls ++ [(.run c sdir b, ("att", mname mi, s!"form{safeForm f}"))]
    else if k < 7 then
      let op : PathOp := match v with
        | 0 | 1 => .append e | 2 => .insert 0 e | 3 => .insert 1 e | 4 => .remove e | 5 => .clear
        | 6 => .rebind [e, .abs "d0"] | _ => .remove (.abs "d0")
      ls := ls ++ [(.path c op, (if v ≤ 3 then "pathadd" else if v == 6 then "rebind" else "pathdel", "", ""))]
    else
      let (r1, b) := body r 2
      r := r1
      match v with
      | 0 | 1 | 2 | 3 => ls := ls ++ [(.write d (mname mi) (.code b), ("write", "", ""))]
      | 4 => ls := ls ++ [(.write d (mname mi) .bad, ("writebad", "", ""))]
      | _ => ls := ls ++ [(.remove d (mname mi), ("remove", "", ""))]
  return (r, caseOf "HR" { goMods := goMods, fs := fs, ctxs := ctxs } ls)

def emitDyn (c : DynCase) : IO Unit :=
  -- only scenarios inside the modelled region are emitted (see `relSafe`)
  if relSafe c.world c.steps then IO.println (mkDynCase c).line else pure ()

def isAtt (l : Letter) : Bool := l.2.1 == "att"

def genDyn (thorough : Bool) (seed : Nat) : IO Unit := do
  let alphaH := attemptsH 0 ++ pathsH 0 ++ fsH
  -- H1..H3: every scenario of ≤ 3 steps over the alphabet
  for n in [1, 2, 3] do
    for wd in words alphaH n do
      emitDyn (caseOf s!"H{n}" worldH wd.reverse)
  -- H4: every scenario of 4 steps (thorough); quick: attempt, change, change, attempt – a quarter per seed
  let mut idx := 0
  if thorough then
    for wd in words alphaH 4 do
      emitDyn (caseOf "H4" worldH wd.reverse)
  else
    let atts := attemptsH 0
    let chg := pathsH 0 ++ fsH
    for a in atts do
      for c1 in chg do
        for c2 in chg do
          for b in atts do
            idx := idx + 1
            if idx % 4 == seed % 4 then emitDyn (caseOf "H4" worldH [a, c1, c2, b])
  -- M: two contexts
  for n in [1, 2, 3] do
    for wd in words lettersM n do
      emitDyn (caseOf s!"M{n}" worldM wd.reverse)
  idx := 0
  for wd in words lettersM 4 do
    idx := idx + 1
    if thorough || idx % 8 == seed % 8 then emitDyn (caseOf "M4" worldM wd.reverse)
  -- HR: seeded random longer histories
  let mut r : Rng := ⟨seed.toUInt64 * 104729 + 1900⟩
  for _ in [0:if thorough then 30000 else 1500] do
    let (r1, c) := randomHistory r
    r := r1
    emitDyn c

end GPy.C19
