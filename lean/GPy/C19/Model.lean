/-
C19 model: gpython's import machinery, transliterated from

* `py/import.go`   `ImportModuleLevelObject` (level ≠ 0 ⇒ SystemError before anything else – fix ac022b1;
                   store → registered Go implementation → sys.path search, compile, run; a failed run
                   un-registers the module – fix 9295ec3; a module that cannot be found is ImportError –
                   fix 4fc8c53).  Dotted names are not modelled beyond the failing lookup (C19-K01),
* `py/module.go`   `ModuleStore.NewModule` (globals copied from the implementation (`Dict.copy`), methods, `__name__`,
                   `__doc__`, `__package__`, `__file__`; **registered in the store before any code runs**),
                   `GetModule`,
* `stdlib/stdlib.go` `ModuleInit` (NewModule, *then* RunCode), `ResolveAndCompile`/`resolveRunPath`
                   (first sys.path entry that has the file wins; path lookup is the parameter `Env.dirs`),
* `py/run.go`      `RunFile`, `RunCode` (a script runs as a fresh `__main__`, which replaces the store entry),
* `vm/eval.go`     `do_IMPORT_NAME`, `do_IMPORT_FROM` (AttributeError → ImportError), `do_IMPORT_STAR`
                   (`__all__`, else every name of the Go map not starting with `_`; the map's iteration
                   order is the parameter `Env.ord`),
* `compile/compile.go` `import_`, `importAs`, `importFrom` (which opcodes a statement becomes).

Module bodies are lists of abstract statements.  Core Lean only.
-/
import GPy.Common.Basic
namespace GPy.C19

/-- values that can sit in a module namespace -/
inductive Val where
  | int (n : Int)
  | mod (id : Nat)            -- reference to the module object `heap[id]`
  | names (l : List String)   -- a list of strings (`__all__`)
  | str (s : String)
  | none
  | fn                        -- a Go method of a built-in module
deriving DecidableEq, Repr, Inhabited

/-- Python exception classes the modelled code can raise -/
inductive Err where
  | importError | attributeError | nameError | typeError | syntaxError | systemError
deriving DecidableEq, Repr, Inhabited

def Err.py : Err → String
  | .importError => "ImportError" | .attributeError => "AttributeError"
  | .nameError => "NameError" | .typeError => "TypeError" | .syntaxError => "SyntaxError"
  | .systemError => "SystemError"

/-- why a run stopped: a Python exception, or the model's fuel ran out (never happens
with enough fuel: theorem `import_terminates`) -/
inductive Fail where
  | raise (e : Err)
  | fuel
deriving DecidableEq, Repr, Inhabited

/-- Go `StringDict` / `map[string]*Module`: association list with unique keys -/
abbrev Dict (α : Type) := List (String × α)

def Dict.set {α} : Dict α → String → α → Dict α
  | [], k, v => [(k, v)]
  | (k', v') :: d, k, v => if k' = k then (k, v) :: d else (k', v') :: Dict.set d k v

def Dict.get {α} (d : Dict α) (k : String) : Option α := List.lookup k d

def Dict.erase {α} (d : Dict α) (k : String) : Dict α := d.filter (fun p => p.1 ≠ k)

def Dict.keys {α} (d : Dict α) : List String := d.map (·.1)

/-- Go `StringDict.Copy`: `for k, v := range d { e[k] = v }` into a fresh map -/
def Dict.copy {α} (d : Dict α) : Dict α := d.foldl (fun e p => e.set p.1 p.2) []

/-- simple statements of a module body -/
inductive Simple where
  | imp (m : String)                                  -- import m
  | impAs (m n : String)                              -- import m as n
  | from_ (m : String) (items : List (String × String)) -- from m import a as b, c as d   (b = a when no `as`)
  | star (m : String)                                 -- from m import *
  | rel (m a : String)                                -- from .m import a   (`m` may be empty: from . import a)
  | bind (x : String) (v : Int)                       -- x = v
  | setAll (l : List String)                          -- __all__ = [...]
  | mutate (n a : String) (v : Int)                   -- n.a = v
  | log (tag : Nat)                                   -- ev(tag, globals())
deriving DecidableEq, Repr, Inhabited

inductive Stmt where
  | plain (s : Simple)
  | tried (s : Simple)      -- try: s / except Exception as zz_e: ex(globals(), zz_e)
deriving DecidableEq, Repr, Inhabited

abbrev Body := List Stmt

/-- a module object (`*py.Module`): only `Globals` matters here -/
structure ModObj where
  name : String
  g : Dict Val
deriving DecidableEq, Repr, Inhabited

/-- ghost + observable events -/
inductive Ev where
  | created (id : Nat) (name : String)   -- NewModule registered the object (ghost)
  | ran (id : Nat) (name : String)       -- the module's code starts to run (ghost)
  | finished (id : Nat) (name : String)  -- the code ran to its end (ghost)
  | failed (name : String)               -- an import un-registered module `name` because its code raised (ghost)
  | hit (id : Nat) (name : String)       -- an import found the module in the store (ghost)
  | obs (tag : Nat) (cur : Nat) (heap : List ModObj) (store : Dict Nat)  -- `ev(tag, globals())`
  | caught (cur : Nat) (name : String) (e : Err)  -- the handler of a `tried` statement ran in module `name`
deriving Repr, Inhabited

/-- one interpreter context -/
structure St where
  heap : List ModObj := []      -- every module object ever created; id = index
  store : Dict Nat := []        -- `ModuleStore.modules`
  trace : List Ev := []         -- newest last
deriving Repr, Inhabited

/-- a source file on sys.path -/
inductive Src where
  | code (body : Body)
  | bad                         -- does not compile (SyntaxError)
deriving DecidableEq, Repr, Inhabited

/-- `py.ModuleImpl` registered with `py.RegisterModule` -/
structure GoImpl where
  globals : Dict Val := []
  methods : List String := []
  body : Option Body := .none     -- CodeSrc
deriving Repr, Inhabited

structure Env where
  goMods : Dict GoImpl                 -- `gRuntime.ModuleImpls`
  dirs : List (Dict Src)               -- sys.path: per directory, module name ↦ file
  ord : List String → List String := id   -- iteration order of a Go map (any permutation)
  lab : Nat → String := fun i => s!"d{i}"  -- name of the i-th search directory (what `__file__` shows)

def St.emit (st : St) (e : Ev) : St := { st with trace := st.trace ++ [e] }

def St.globalsOf (st : St) (id : Nat) : Dict Val := (st.heap.getD id default).g

def updAt {α} : List α → Nat → (α → α) → List α
  | [], _, _ => []
  | x :: xs, 0, f => f x :: xs
  | x :: xs, n + 1, f => x :: updAt xs n f

/-- `module.Globals[k] = v` -/
def St.setGlobal (st : St) (id : Nat) (k : String) (v : Val) : St :=
  { st with heap := updAt st.heap id (fun m => { m with g := m.g.set k v }) }

/-- an import function: `ImportModuleLevelObject` with the context's state threaded -/
abbrev ImpFn := String → St → St × Except Fail Nat

/-- `resolveRunPath` over sys.path: the first directory that has `<name>.py`; result = (`__file__`, file) -/
def resolve (lab : Nat → String) : List (Dict Src) → Nat → String → Option (String × Src)
  | [], _, _ => .none
  | d :: ds, i, name =>
    match d.get name with
    | some s => some (s!"{lab i}/{name}.py", s)
    | none => resolve lab ds (i + 1) name

/-- IMPORT_FROM for each alias, then STORE_NAME -/
def fromItems (src : Nat) (cur : Nat) : List (String × String) → St → St × Option Fail
  | [], st => (st, .none)
  | (a, b) :: rest, st =>
    match (st.globalsOf src).get a with
    | none => (st, some (.raise .importError))      -- AttributeError rethrown as ImportError
    | some v => fromItems src cur rest (st.setGlobal cur b v)

/-- IMPORT_STAR with `__all__`: bind name by name, stop at the first missing one -/
def starAll (src : Dict Val) (cur : Nat) : List String → St → St × Option Fail
  | [], st => (st, .none)
  | k :: rest, st =>
    match src.get k with
    | none => (st, some (.raise .attributeError))
    | some v => starAll src cur rest (st.setGlobal cur k v)

/-- IMPORT_STAR without `__all__`: `for name, value := range module.Globals` -/
def starPlain (src : Dict Val) (cur : Nat) : List String → St → St
  | [], st => st
  | k :: rest, st =>
    if k.startsWith "_" then starPlain src cur rest st
    else match src.get k with
      | none => starPlain src cur rest st
      | some v => starPlain src cur rest (st.setGlobal cur k v)

def importStar (env : Env) (src : Dict Val) (cur : Nat) (st : St) : St × Option Fail :=
  match src.get "__all__" with
  | some (.names l) => starAll src cur l st
  | some _ => (st, some (.raise .typeError))       -- py.Iterate / AttributeName fail
  | none => (starPlain src cur (env.ord src.keys) st, .none)

/-- one simple statement executed in module `cur` (module level: locals = globals) -/
def execSimple (env : Env) (imp : ImpFn) (cur : Nat) (s : Simple) (st : St) : St × Option Fail :=
  match s with
  | .imp m =>
    match imp m st with
    | (st, .error f) => (st, some f)
    | (st, .ok id) => (st.setGlobal cur m (.mod id), .none)
  | .impAs m n =>
    match imp m st with
    | (st, .error f) => (st, some f)
    | (st, .ok id) => (st.setGlobal cur n (.mod id), .none)
  | .from_ m items =>
    match imp m st with
    | (st, .error f) => (st, some f)
    | (st, .ok id) => fromItems id cur items st
  | .star m =>
    match imp m st with
    | (st, .error f) => (st, some f)
    | (st, .ok id) => importStar env (st.globalsOf id) cur st
  | .rel _ _ => (st, some (.raise .systemError))      -- level ≠ 0: "Relative import not supported yet"
  | .bind x v => (st.setGlobal cur x (.int v), .none)
  | .setAll l => (st.setGlobal cur "__all__" (.names l), .none)
  | .mutate n a v =>
    match (st.globalsOf cur).get n with
    | none => (st, some (.raise .nameError))
    | some (.mod id) => (st.setGlobal id a (.int v), .none)
    | some _ => (st, some (.raise .attributeError))
  | .log tag => (st.emit (.obs tag cur st.heap st.store), .none)

def execStmt (env : Env) (imp : ImpFn) (cur : Nat) (s : Stmt) (st : St) : St × Option Fail :=
  match s with
  | .plain s => execSimple env imp cur s st
  | .tried s =>
    match execSimple env imp cur s st with
    | (st, some (.raise e)) => (st.emit (.caught cur (st.heap.getD cur default).name e), .none)
    | r => r

def execBody (env : Env) (imp : ImpFn) (cur : Nat) : Body → St → St × Option Fail
  | [], st => (st, .none)
  | s :: rest, st =>
    match execStmt env imp cur s st with
    | (st, some f) => (st, some f)
    | (st, .none) => execBody env imp cur rest st

/-- `ModuleInit`: `NewModule` (create + **register**), then run the code in the new module -/
def moduleInit (env : Env) (imp : ImpFn) (name : String) (g0 : Dict Val) (code : Option Body) (st : St) :
    St × Except Fail Nat :=
  let id := st.heap.length
  let st : St := { st with heap := st.heap ++ [({ name := name, g := g0 } : ModObj)], store := st.store.set name id }
  let st := st.emit (.created id name)
  match code with
  | .none => (st, .ok id)
  | some body =>
    match execBody env imp id body (st.emit (.ran id name)) with
    | (st, some f) => (st, .error f)
    | (st, .none) => (st.emit (.finished id name), .ok id)

/-- the globals `NewModule` gives a module -/
def initGlobals (name : String) (file : Option String) (impl : GoImpl) : Dict Val :=
  let g := impl.methods.foldl (fun g m => g.set m .fn) impl.globals.copy     -- instanceGlobals: Globals.Copy()
  let g := ((g.set "__name__" (.str name)).set "__doc__" (.str "")).set "__package__" .none
  match file with
  | some f => g.set "__file__" (.str f)
  | none => g

/-- the import boundary around `ModuleInit`: a module whose code raised is un-registered again -/
def loadModule (env : Env) (imp : ImpFn) (name : String) (g0 : Dict Val) (code : Option Body) (st : St) :
    St × Except Fail Nat :=
  match moduleInit env imp name g0 code st with
  | (st, .error f) => (({ st with store := st.store.erase name } : St).emit (.failed name), .error f)
  | r => r

/-- `ImportModuleLevelObject` (level 0, undotted name).  `fuel` bounds the nesting of module
bodies; a cached module needs none. -/
def importModule (env : Env) : Nat → ImpFn
  | fuel, name, st =>
    match st.store.get name with
    | some id => (st.emit (.hit id name), .ok id)               -- already loaded
    | none =>
      match fuel with
      | 0 => (st, .error .fuel)
      | fuel + 1 =>
        match env.goMods.get name with
        | some impl => loadModule env (importModule env fuel) name (initGlobals name .none impl) impl.body st
        | none =>
          match resolve env.lab env.dirs 0 name with
          | none => (st, .error (.raise .importError))          -- FileNotFoundError → ImportError
          | some (_, .bad) => (st, .error (.raise .syntaxError))
          | some (file, .code body) =>
            loadModule env (importModule env fuel) name (initGlobals name (some file) {}) (some body) st

/-- `py.RunFile(ctx, script, opts, nil)`: the code runs in a fresh `__main__` (not un-registered on failure) -/
def runScript (env : Env) (fuel : Nat) (file : String) (body : Body) (st : St) : St × Except Fail Nat :=
  moduleInit env (importModule env fuel) "__main__" (initGlobals "__main__" (some file) {}) (some body) st

/-- a whole case: the scripts run one after the other in one context -/
def runScripts (env : Env) (fuel : Nat) : List Body → Nat → St → St × List (Except Fail Nat)
  | [], _, st => (st, [])
  | b :: rest, i, st =>
    let (st, r) := runScript env fuel s!"s/s{i}.py" b st
    let (st, rs) := runScripts env fuel rest (i + 1) st
    (st, r :: rs)

/-! ### the same machinery with the ORDER of the effects of one module load as a parameter

`extract/importorder` regenerates `GPy.C19.Generated.orders` from `py/module.go` (`NewModule`),
`stdlib/stdlib.go` (`ModuleInit`), `py/run.go` (`RunCode`) and `py/import.go`
(`ImportModuleLevelObject`): the effects on the module store in source order, calls inlined.
`importModuleO Generated.orders` is the model the driver runs; `Proofs.importModuleO_canonical`
shows that with `canonicalOrders` it is `importModule`, and `Props.generated_order_is_canonical`
is the obligation that fails when the source no longer registers a module before running it. -/

/-- the effects of one module load on the store -/
inductive Effect where
  | register      -- `store.modules[name] = m`                        (NewModule)
  | runCode       -- `ctx.RunCode(code, module.Globals, ...)`          (ModuleInit)
  | unregister    -- `ctx.Store().removeModule(name)` in the `err != nil` branch that follows (ImportModuleLevelObject)
deriving DecidableEq, Repr, Inhabited

structure Orders where
  moduleInit : List Effect     -- `ModuleInit` with `NewModule` inlined (also what `RunFile` of a script does)
  importGo : List Effect       -- `ImportModuleLevelObject`, registered-implementation branch
  importFile : List Effect     -- `ImportModuleLevelObject`, sys.path branch (`RunCode` → `ModuleInit` inlined)
deriving DecidableEq, Repr, Inhabited

/-- the order the hand-written `moduleInit` / `loadModule` above have -/
def canonicalOrders : Orders :=
  { moduleInit := [.register, .runCode],
    importGo := [.register, .runCode, .unregister],
    importFile := [.register, .runCode, .unregister] }

/-- execute the effects in the given order on the freshly allocated module object `id`.  An error
of the code skips the remaining effects; the `unregister` handler acts iff it follows the failing call. -/
def runEffects (env : Env) (imp : ImpFn) (name : String) (id : Nat) (code : Option Body) :
    List Effect → St → St × Option Fail
  | [], st => (st, .none)
  | .register :: es, st =>
    runEffects env imp name id code es (({ st with store := st.store.set name id } : St).emit (.created id name))
  | .runCode :: es, st =>
    match code with
    | .none => runEffects env imp name id code es st
    | some body =>
      match execBody env imp id body (st.emit (.ran id name)) with
      | (st, some f) =>
        if es.contains .unregister then (({ st with store := st.store.erase name } : St).emit (.failed name), some f)
        else (st, some f)
      | (st, .none) => runEffects env imp name id code es (st.emit (.finished id name))
  | .unregister :: es, st => runEffects env imp name id code es st

/-- allocate the module object (`m := &Module{...}`), then the effects in order -/
def loadO (order : List Effect) (env : Env) (imp : ImpFn) (name : String) (g0 : Dict Val) (code : Option Body) (st : St) :
    St × Except Fail Nat :=
  let id := st.heap.length
  match runEffects env imp name id code order { st with heap := st.heap ++ [({ name := name, g := g0 } : ModObj)] } with
  | (st, some f) => (st, .error f)
  | (st, .none) => (st, .ok id)

def importModuleO (o : Orders) (env : Env) : Nat → ImpFn
  | fuel, name, st =>
    match st.store.get name with
    | some id => (st.emit (.hit id name), .ok id)
    | none =>
      match fuel with
      | 0 => (st, .error .fuel)
      | fuel + 1 =>
        match env.goMods.get name with
        | some impl => loadO o.importGo env (importModuleO o env fuel) name (initGlobals name .none impl) impl.body st
        | none =>
          match resolve env.lab env.dirs 0 name with
          | none => (st, .error (.raise .importError))
          | some (_, .bad) => (st, .error (.raise .syntaxError))
          | some (file, .code body) =>
            loadO o.importFile env (importModuleO o env fuel) name (initGlobals name (some file) {}) (some body) st

def runScriptsO (o : Orders) (env : Env) (fuel : Nat) : List Body → Nat → St → St × List (Except Fail Nat)
  | [], _, st => (st, [])
  | b :: rest, i, st =>
    let (st, r) := loadO o.moduleInit env (importModuleO o env fuel) "__main__"
      (initGlobals "__main__" (some s!"s/s{i}.py") {}) (some b) st
    let (st, rs) := runScriptsO o env fuel rest (i + 1) st
    (st, r :: rs)

/-- number of module names that could still be loaded: the termination measure -/
def candidates (env : Env) : List String :=
  (env.goMods.keys ++ env.dirs.flatMap (·.keys)).eraseDups

def fuelFor (env : Env) : Nat := (candidates env).length + 1

end GPy.C19
