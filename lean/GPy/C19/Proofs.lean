/-
C19 helper lemmas: finite-map facts, a generic lifting principle for relations on interpreter
states through statements/bodies (`Rel`, `execBody_rel`), the "no fuel error" lifting, the store /
trace invariants (`StoreKept`, `WF`, `RanIdOK`, `RanNameOK`) through `moduleInit`, `loadModule`,
`importModule` (induction on the fuel) and `runScripts`, and the termination measure.
-/
import GPy.C19.Spec
namespace GPy.C19

/-! ### finite maps -/

theorem Dict.get_set {α} (d : Dict α) (k k' : String) (v : α) :
    (d.set k v).get k' = if k' = k then some v else d.get k' := by
  induction d with
  | nil =>
    by_cases h : k' = k
    · simp [Dict.set, Dict.get, List.lookup, h]
    · have : (k' == k) = false := by simpa using h
      simp [Dict.set, Dict.get, List.lookup, h, this]
  | cons p d ih =>
    obtain ⟨a, b⟩ := p
    unfold Dict.get at ih ⊢
    by_cases hak : a = k
    · subst hak
      by_cases h : k' = a
      · simp [Dict.set, List.lookup, h]
      · have : (k' == a) = false := by simpa using h
        simp [Dict.set, List.lookup, h, this]
    · by_cases h : k' = k
      · subst h
        have h2 : (k' == a) = false := by simpa using (fun e => hak e.symm)
        simp [Dict.set, hak, List.lookup, h2, ih]
      · simp only [Dict.set, hak, if_false, List.lookup, h]
        cases hka : (k' == a)
        · simpa [h] using ih
        · rfl

theorem Dict.get_erase {α} (d : Dict α) (k k' : String) :
    (d.erase k).get k' = if k' = k then none else d.get k' := by
  induction d with
  | nil => simp [Dict.erase, Dict.get, List.lookup]
  | cons p d ih =>
    obtain ⟨a, b⟩ := p
    unfold Dict.get Dict.erase at ih ⊢
    by_cases hak : a = k
    · subst hak
      by_cases h : k' = a
      · simp [List.filter, h] at ih ⊢; simpa [h] using ih
      · have : (k' == a) = false := by simpa using h
        simp [List.filter, List.lookup, this, h] at ih ⊢; simpa [h] using ih
    · have hdec : decide (a ≠ k) = true := by simpa using hak
      simp only [List.filter, hdec, List.lookup]
      cases hka : (k' == a)
      · simpa using ih
      · have : k' = a := by simpa using hka
        subst this
        simp [hak]

theorem Dict.mem_keys_of_get {α} (d : Dict α) (k : String) (v : α) (h : d.get k = some v) : k ∈ d.keys := by
  induction d with
  | nil => simp [Dict.get, List.lookup] at h
  | cons p d ih =>
    obtain ⟨a, b⟩ := p
    unfold Dict.get at h ih
    simp only [List.lookup] at h
    cases hka : (k == a)
    · rw [hka] at h; simp only [Dict.keys, List.map_cons, List.mem_cons]; right; exact ih h
    · have : k = a := by simpa using hka
      simp [Dict.keys, this]

theorem Dict.get_isSome_of_mem_keys {α} (d : Dict α) (k : String) (h : k ∈ d.keys) : (d.get k).isSome := by
  induction d with
  | nil => simp [Dict.keys] at h
  | cons p d ih =>
    obtain ⟨a, b⟩ := p
    unfold Dict.get at ih ⊢
    simp only [List.lookup]
    cases hka : (k == a)
    · have hne : k ≠ a := by simpa using hka
      simp only [Dict.keys, List.map_cons, List.mem_cons] at h
      rcases h with h | h
      · exact absurd h hne
      · exact ih h
    · rfl

/-! ### heap updates -/

theorem updAt_length {α} (l : List α) (i : Nat) (f : α → α) : (updAt l i f).length = l.length := by
  induction l generalizing i with
  | nil => rfl
  | cons x xs ih => cases i <;> simp [updAt, ih]

theorem updAt_getD {α} (l : List α) (i j : Nat) (f : α → α) (d : α) :
    (updAt l i f).getD j d = if j = i ∧ j < l.length then f (l.getD j d) else l.getD j d := by
  induction l generalizing i j with
  | nil => simp [updAt]
  | cons x xs ih =>
    cases i with
    | zero =>
      cases j with
      | zero => simp [updAt]
      | succ j => simp [updAt]
    | succ i =>
      cases j with
      | zero => simp [updAt]
      | succ j => simpa [updAt] using ih i j

@[simp] theorem setGlobal_store (st : St) (id : Nat) (k : String) (v : Val) : (st.setGlobal id k v).store = st.store := rfl
@[simp] theorem setGlobal_trace (st : St) (id : Nat) (k : String) (v : Val) : (st.setGlobal id k v).trace = st.trace := rfl
@[simp] theorem setGlobal_heap_length (st : St) (id : Nat) (k : String) (v : Val) :
    (st.setGlobal id k v).heap.length = st.heap.length := by simp [St.setGlobal, updAt_length]
@[simp] theorem emit_store (st : St) (e : Ev) : (st.emit e).store = st.store := rfl
@[simp] theorem emit_heap (st : St) (e : Ev) : (st.emit e).heap = st.heap := rfl
@[simp] theorem emit_trace (st : St) (e : Ev) : (st.emit e).trace = st.trace ++ [e] := rfl

theorem setGlobal_name (st : St) (id j : Nat) (k : String) (v : Val) :
    ((st.setGlobal id k v).heap.getD j default).name = (st.heap.getD j default).name := by
  simp only [St.setGlobal, updAt_getD]
  split <;> rfl

theorem globalsOf_setGlobal (st : St) (id j : Nat) (k : String) (v : Val) :
    (st.setGlobal id k v).globalsOf j =
      if j = id ∧ j < st.heap.length then (st.globalsOf j).set k v else st.globalsOf j := by
  simp only [St.globalsOf, St.setGlobal, updAt_getD]
  split <;> rfl

/-- reading back a name of module `id` after `module.Globals[k] = v` -/
theorem get_setGlobal (st : St) (id : Nat) (k k' : String) (v : Val) (h : id < st.heap.length) :
    ((st.setGlobal id k v).globalsOf id).get k' = if k' = k then some v else (st.globalsOf id).get k' := by
  rw [globalsOf_setGlobal]; simp [h, Dict.get_set]

theorem globalsOf_setGlobal_ne (st : St) (id j : Nat) (k : String) (v : Val) (h : j ≠ id) :
    (st.setGlobal id k v).globalsOf j = st.globalsOf j := by
  rw [globalsOf_setGlobal]; simp [h]

/-! ### relations on states that every statement preserves -/

/-- events a statement itself emits (everything except the module life-cycle events) -/
def Ev.quiet : Ev → Bool
  | .obs .. => true | .caught .. => true | .hit .. => true | _ => false

structure Rel (R : St → St → Prop) : Prop where
  refl : ∀ st, R st st
  trans : ∀ {a b c}, R a b → R b c → R a c
  setGlobal : ∀ st id k v, R st (st.setGlobal id k v)
  emit : ∀ st e, e.quiet = true → R st (st.emit e)

section lifting
variable {R : St → St → Prop} (hR : Rel R) (env : Env) (imp : ImpFn) (himp : ∀ name st, R st (imp name st).1)
include hR

theorem fromItems_rel (src cur : Nat) (items : List (String × String)) (st : St) :
    R st (fromItems src cur items st).1 := by
  induction items generalizing st with
  | nil => exact hR.refl _
  | cons p rest ih =>
    obtain ⟨a, b⟩ := p
    simp only [fromItems]
    split
    · exact hR.refl _
    · exact hR.trans (hR.setGlobal _ _ _ _) (ih _)

theorem starAll_rel (src : Dict Val) (cur : Nat) (l : List String) (st : St) : R st (starAll src cur l st).1 := by
  induction l generalizing st with
  | nil => exact hR.refl _
  | cons k rest ih =>
    simp only [starAll]
    split
    · exact hR.refl _
    · exact hR.trans (hR.setGlobal _ _ _ _) (ih _)

theorem starPlain_rel (src : Dict Val) (cur : Nat) (l : List String) (st : St) : R st (starPlain src cur l st) := by
  induction l generalizing st with
  | nil => exact hR.refl _
  | cons k rest ih =>
    simp only [starPlain]
    split
    · exact ih _
    · split
      · exact ih _
      · exact hR.trans (hR.setGlobal _ _ _ _) (ih _)

theorem importStar_rel (src : Dict Val) (cur : Nat) (st : St) : R st (importStar env src cur st).1 := by
  simp only [importStar]
  split
  · exact starAll_rel hR _ _ _ _
  · exact hR.refl _
  · exact starPlain_rel hR _ _ _ _

include himp

theorem execSimple_rel (cur : Nat) (s : Simple) (st : St) : R st (execSimple env imp cur s st).1 := by
  cases s with
  | imp m =>
    simp only [execSimple]
    have h := himp m st
    rcases hi : imp m st with ⟨st1, r⟩
    rw [hi] at h
    cases r with
    | error f => exact h
    | ok id => exact hR.trans h (hR.setGlobal _ _ _ _)
  | impAs m n =>
    simp only [execSimple]
    have h := himp m st
    rcases hi : imp m st with ⟨st1, r⟩
    rw [hi] at h
    cases r with
    | error f => exact h
    | ok id => exact hR.trans h (hR.setGlobal _ _ _ _)
  | from_ m items =>
    simp only [execSimple]
    have h := himp m st
    rcases hi : imp m st with ⟨st1, r⟩
    rw [hi] at h
    cases r with
    | error f => exact h
    | ok id => exact hR.trans h (fromItems_rel hR _ _ _ _)
  | star m =>
    simp only [execSimple]
    have h := himp m st
    rcases hi : imp m st with ⟨st1, r⟩
    rw [hi] at h
    cases r with
    | error f => exact h
    | ok id => exact hR.trans h (importStar_rel hR env _ _ _)
  | rel m a => exact hR.refl _
  | bind x v => exact hR.setGlobal _ _ _ _
  | setAll l => exact hR.setGlobal _ _ _ _
  | mutate n a v =>
    simp only [execSimple]
    split
    · exact hR.refl _
    · exact hR.setGlobal _ _ _ _
    · exact hR.refl _
  | log tag => exact hR.emit _ _ rfl

theorem execStmt_rel (cur : Nat) (s : Stmt) (st : St) : R st (execStmt env imp cur s st).1 := by
  cases s with
  | plain s => exact execSimple_rel hR env imp himp cur s st
  | tried s =>
    simp only [execStmt]
    have h := execSimple_rel hR env imp himp cur s st
    split
    · next st1 e heq => rw [heq] at h; exact hR.trans h (hR.emit _ _ rfl)
    · exact h

theorem execBody_rel (cur : Nat) (body : Body) (st : St) : R st (execBody env imp cur body st).1 := by
  induction body generalizing st with
  | nil => exact hR.refl _
  | cons s rest ih =>
    simp only [execBody]
    have h := execStmt_rel hR env imp himp cur s st
    split
    · next st1 f heq => rw [heq] at h; exact h
    · next st1 heq => rw [heq] at h; exact hR.trans h (ih _)

end lifting

/-! ### a fuel error can only come out of the import function -/

section nofuel
variable (env : Env) (imp : ImpFn)

theorem fromItems_nofuel (src cur : Nat) (items : List (String × String)) (st : St) :
    (fromItems src cur items st).2 ≠ some .fuel := by
  induction items generalizing st with
  | nil => simp [fromItems]
  | cons p rest ih =>
    obtain ⟨a, b⟩ := p
    simp only [fromItems]
    split
    · simp
    · exact ih _

theorem starAll_nofuel (src : Dict Val) (cur : Nat) (l : List String) (st : St) :
    (starAll src cur l st).2 ≠ some .fuel := by
  induction l generalizing st with
  | nil => simp [starAll]
  | cons k rest ih =>
    simp only [starAll]
    split
    · simp
    · exact ih _

theorem importStar_nofuel (src : Dict Val) (cur : Nat) (st : St) : (importStar env src cur st).2 ≠ some .fuel := by
  simp only [importStar]
  split
  · exact starAll_nofuel _ _ _ _
  · simp
  · simp

variable {R : St → St → Prop} (hR : Rel R) (himpR : ∀ name st, R st (imp name st).1)
  (G : St → Prop) (hG : ∀ a b, R a b → G a → G b)
  (himp : ∀ name st, G st → (imp name st).2 ≠ .error .fuel)
include hR himpR hG himp

theorem execSimple_nofuel (cur : Nat) (s : Simple) (st : St) (hg : G st) :
    (execSimple env imp cur s st).2 ≠ some .fuel := by
  cases s with
  | imp m =>
    simp only [execSimple]
    have h := himp m st hg
    rcases hi : imp m st with ⟨st1, r⟩
    rw [hi] at h
    cases r with
    | error f => simpa using h
    | ok id => simp
  | impAs m n =>
    simp only [execSimple]
    have h := himp m st hg
    rcases hi : imp m st with ⟨st1, r⟩
    rw [hi] at h
    cases r with
    | error f => simpa using h
    | ok id => simp
  | from_ m items =>
    simp only [execSimple]
    have h := himp m st hg
    rcases hi : imp m st with ⟨st1, r⟩
    rw [hi] at h
    cases r with
    | error f => simpa using h
    | ok id => exact fromItems_nofuel _ _ _ _
  | star m =>
    simp only [execSimple]
    have h := himp m st hg
    rcases hi : imp m st with ⟨st1, r⟩
    rw [hi] at h
    cases r with
    | error f => simpa using h
    | ok id => exact importStar_nofuel env _ _ _
  | rel m a => simp [execSimple]
  | bind x v => simp [execSimple]
  | setAll l => simp [execSimple]
  | mutate n a v =>
    simp only [execSimple]
    split <;> simp
  | log tag => simp [execSimple]

theorem execStmt_nofuel (cur : Nat) (s : Stmt) (st : St) (hg : G st) :
    (execStmt env imp cur s st).2 ≠ some .fuel := by
  cases s with
  | plain s => exact execSimple_nofuel env imp hR himpR G hG himp cur s st hg
  | tried s =>
    simp only [execStmt]
    have h := execSimple_nofuel env imp hR himpR G hG himp cur s st hg
    split
    · simp
    · exact h

theorem execBody_nofuel (cur : Nat) (body : Body) (st : St) (hg : G st) :
    (execBody env imp cur body st).2 ≠ some .fuel := by
  induction body generalizing st with
  | nil => simp [execBody]
  | cons s rest ih =>
    simp only [execBody]
    have h := execStmt_nofuel env imp hR himpR G hG himp cur s st hg
    have hr := execStmt_rel hR env imp himpR cur s st
    split
    · next st1 f heq => rw [heq] at h; exact h
    · next st1 heq => rw [heq] at hr; exact ih _ (hG _ _ hr hg)

end nofuel

/-! ## relations and invariants -/

/-- store entries never change or vanish (`x` = the one name allowed to change) -/
def StoreKeptX (x : Option String) (a b : St) : Prop :=
  ∀ m id, some m ≠ x → a.store.get m = some id → b.store.get m = some id

abbrev StoreKept := StoreKeptX none

/-- the store is well formed: every entry points to a live module object of that name -/
def WF (st : St) : Prop :=
  ∀ m id, st.store.get m = some id → id < st.heap.length ∧ (st.heap.getD id default).name = m

/-- object level: no module object's code has started twice; unborn objects have not run -/
def RanIdOK (st : St) : Prop :=
  ∀ id, ranCountId id st.trace ≤ 1 ∧ (st.heap.length ≤ id → ranCountId id st.trace = 0)

/-- name level: runs of `m` ≤ failed runs of `m` + (1 if `m` is in the store) -/
def RanNameOK (st : St) : Prop :=
  ∀ m, m ≠ "__main__" →
    ranCount m st.trace ≤ failedCount m st.trace + (st.store.get m).isSome.toNat

theorem storeKept_rel : Rel StoreKept where
  refl := fun _ _ _ _ h => h
  trans := fun h1 h2 m id hx h => h2 m id hx (h1 m id hx h)
  setGlobal := fun _ _ _ _ _ _ _ h => h
  emit := fun _ _ _ _ _ _ h => h

theorem StoreKeptX.trans_kept {x a b c} (h1 : StoreKeptX x a b) (h2 : StoreKept b c) : StoreKeptX x a c :=
  fun m id hx h => h2 m id (by simp) (h1 m id hx h)

theorem wf_rel : Rel (fun a b => WF a → WF b) where
  refl := fun _ h => h
  trans := fun h1 h2 h => h2 (h1 h)
  setGlobal := by
    intro st id k v h m i hm
    have := h m i hm
    simp only [setGlobal_heap_length, setGlobal_name]
    exact this
  emit := fun _ _ _ h => h

theorem ranCountId_append (id : Nat) (t : List Ev) (e : Ev) :
    ranCountId id (t ++ [e]) = ranCountId id t + (match e with | .ran i _ => if i = id then 1 else 0 | _ => 0) := by
  unfold ranCountId
  rw [List.filter_append, List.length_append]
  cases e <;> simp [List.filter]
  split <;> simp_all

theorem ranCount_append (m : String) (t : List Ev) (e : Ev) :
    ranCount m (t ++ [e]) = ranCount m t + (match e with | .ran _ n => if n = m then 1 else 0 | _ => 0) := by
  unfold ranCount
  rw [List.filter_append, List.length_append]
  cases e <;> simp [List.filter]
  split <;> simp_all

theorem failedCount_append (m : String) (t : List Ev) (e : Ev) :
    failedCount m (t ++ [e]) = failedCount m t + (match e with | .failed n => if n = m then 1 else 0 | _ => 0) := by
  unfold failedCount
  rw [List.filter_append, List.length_append]
  cases e <;> simp [List.filter]
  split <;> simp_all

theorem ranId_rel : Rel (fun a b => RanIdOK a → RanIdOK b) where
  refl := fun _ h => h
  trans := fun h1 h2 h => h2 (h1 h)
  setGlobal := by
    intro st id k v h i
    simpa using h i
  emit := by
    intro st e hq h i
    have := h i
    simp only [emit_trace, emit_heap, ranCountId_append]
    cases e <;> simp_all [Ev.quiet]

theorem ranName_rel : Rel (fun a b => RanNameOK a → RanNameOK b) where
  refl := fun _ h => h
  trans := fun h1 h2 h => h2 (h1 h)
  setGlobal := by
    intro st id k v h m hm
    simpa using h m hm
  emit := by
    intro st e hq h m hm
    have := h m hm
    simp only [emit_trace, emit_store, ranCount_append, failedCount_append]
    cases e <;> simp_all [Ev.quiet]

/-! ## `ModuleInit` / the import boundary -/

section init
variable (env : Env) (imp : ImpFn)

theorem getD_append_length (l : List ModObj) (x : ModObj) : (l ++ [x]).getD l.length default = x := by
  simp [List.getD]

theorem getD_append_lt (l : List ModObj) (x : ModObj) (i : Nat) (h : i < l.length) :
    (l ++ [x]).getD i default = l.getD i default := by
  simp [List.getD, List.getElem?_append_left h]

/-- the state right after `NewModule` -/
def newSt (st : St) (name : String) (g0 : Dict Val) : St :=
  ({ st with heap := st.heap ++ [({ name := name, g := g0 } : ModObj)],
             store := st.store.set name st.heap.length } : St).emit (.created st.heap.length name)

/-- unfolding of `moduleInit` into its three phases -/
theorem moduleInit_eq (name : String) (g0 : Dict Val) (code : Option Body) (st : St) :
    moduleInit env imp name g0 code st =
      match code with
      | .none => (newSt st name g0, .ok st.heap.length)
      | some body =>
        match execBody env imp st.heap.length body ((newSt st name g0).emit (.ran st.heap.length name)) with
        | (st3, some f) => (st3, .error f)
        | (st3, .none) => (st3.emit (.finished st.heap.length name), .ok st.heap.length) := rfl

/-- generic shape lemma: a property `P` of the state established by the creation step (plus the
`ran` event when there is code), kept by the body and by the closing event, holds after `moduleInit` -/
theorem moduleInit_post {R : St → St → Prop} (hR : Rel R) (himp : ∀ n st, R st (imp n st).1)
    (P : St → Prop) (name : String) (g0 : Dict Val) (code : Option Body) (st : St)
    (hkeep : ∀ a b, R a b → P a → P b)
    (hnew : code = .none → P (newSt st name g0))
    (hran : code.isSome → P ((newSt st name g0).emit (.ran st.heap.length name)))
    (hend : ∀ a, P a → P (a.emit (.finished st.heap.length name))) :
    P (moduleInit env imp name g0 code st).1 := by
  rw [moduleInit_eq]
  cases code with
  | none => exact hnew rfl
  | some body =>
    simp only
    have h2 := hran rfl
    have h3 := execBody_rel hR env imp himp st.heap.length body ((newSt st name g0).emit (.ran st.heap.length name))
    split
    · next st3 f heq => rw [heq] at h3; exact hkeep _ _ h3 h2
    · next st3 heq => rw [heq] at h3; exact hend _ (hkeep _ _ h3 h2)

theorem newSt_store (st : St) (name : String) (g0 : Dict Val) :
    (newSt st name g0).store = st.store.set name st.heap.length := rfl
theorem newSt_heap (st : St) (name : String) (g0 : Dict Val) :
    (newSt st name g0).heap = st.heap ++ [({ name := name, g := g0 } : ModObj)] := rfl
theorem newSt_trace (st : St) (name : String) (g0 : Dict Val) :
    (newSt st name g0).trace = st.trace ++ [.created st.heap.length name] := rfl

theorem moduleInit_storeKeptX (himp : ∀ n st, StoreKept st (imp n st).1) (name g0 code) (st : St) :
    StoreKeptX (some name) st (moduleInit env imp name g0 code st).1 := by
  have hnew : StoreKeptX (some name) st (newSt st name g0) := by
    intro m id hx h
    have hne : m ≠ name := fun e => hx (by rw [e])
    simp only [newSt_store, Dict.get_set, hne, if_false]; exact h
  apply moduleInit_post env imp storeKept_rel himp (fun b => StoreKeptX (some name) st b)
  · intro a b hab ha; exact ha.trans_kept hab
  · intro _; exact hnew
  · intro _; exact hnew
  · intro a ha; exact ha

theorem newSt_wf (name g0) (st : St) (h : WF st) : WF (newSt st name g0) := by
  intro m id hm
  simp only [newSt_store, newSt_heap, Dict.get_set] at hm ⊢
  by_cases hmn : m = name
  · simp only [hmn, if_true, Option.some.injEq] at hm
    subst hm
    rw [getD_append_length]
    simp [hmn]
  · simp only [hmn, if_false] at hm
    have := h m id hm
    rw [getD_append_lt _ _ _ this.1]
    exact ⟨by simp; omega, this.2⟩

theorem moduleInit_wf (himp : ∀ n st, WF st → WF (imp n st).1) (name g0 code) (st : St) (h : WF st) :
    WF (moduleInit env imp name g0 code st).1 := by
  apply moduleInit_post env imp wf_rel himp WF
  · intro a b hab ha; exact hab ha
  · intro _; exact newSt_wf name g0 st h
  · intro _; exact newSt_wf name g0 st h
  · intro a ha; exact ha

theorem moduleInit_ranId (himp : ∀ n st, RanIdOK st → RanIdOK (imp n st).1) (name g0 code) (st : St) (h : RanIdOK st) :
    RanIdOK (moduleInit env imp name g0 code st).1 := by
  apply moduleInit_post env imp ranId_rel himp RanIdOK
  · intro a b hab ha; exact hab ha
  · intro _ i
    have := h i
    simp only [newSt_trace, newSt_heap, ranCountId_append, List.length_append, List.length_singleton]
    exact ⟨by simpa using this.1, fun hi => by simpa using this.2 (by omega)⟩
  · intro _ i
    have hi := h i
    simp only [emit_trace, emit_heap, newSt_trace, newSt_heap, ranCountId_append, List.length_append, List.length_singleton]
    by_cases e : st.heap.length = i
    · subst e
      have := hi.2 (Nat.le_refl _)
      simp [this]
    · simp only [e, if_false, Nat.add_zero]
      exact ⟨hi.1, fun hle => hi.2 (by omega)⟩
  · intro a ha i
    have := ha i
    simp only [emit_trace, emit_heap, ranCountId_append]
    simpa using this

theorem moduleInit_ranName (himp : ∀ n st, RanNameOK st → RanNameOK (imp n st).1) (name g0 code) (st : St)
    (habs : st.store.get name = none ∨ name = "__main__") (h : RanNameOK st) :
    RanNameOK (moduleInit env imp name g0 code st).1 := by
  have hnew : RanNameOK (newSt st name g0) := by
    intro m hm
    have := h m hm
    simp only [newSt_trace, newSt_store, ranCount_append, failedCount_append, Dict.get_set]
    by_cases e : m = name
    · simp only [e, if_true, Option.isSome_some, Bool.toNat_true]
      rcases habs with ha | ha
      · rw [e, ha] at this; simpa using Nat.le_succ_of_le this
      · exact absurd (e.trans ha) hm
    · simpa [e] using this
  apply moduleInit_post env imp ranName_rel himp RanNameOK
  · intro a b hab ha; exact hab ha
  · intro _; exact hnew
  · intro _ m hm
    have := h m hm
    simp only [emit_trace, emit_store, newSt_trace, newSt_store, ranCount_append, failedCount_append, Dict.get_set]
    by_cases e : m = name
    · rcases habs with ha | ha
      · rw [e, ha] at this
        simp only [e, if_true, Option.isSome_some, Bool.toNat_true]
        simpa using this
      · exact absurd (e.trans ha) hm
    · have e' : ¬ name = m := fun x => e x.symm
      simpa [e, e'] using this
  · intro a ha m hm
    have := ha m hm
    simp only [emit_trace, emit_store, ranCount_append, failedCount_append]
    simpa using this

/-! ### the import boundary (`loadModule`) -/

theorem loadModule_storeKept (himp : ∀ n st, StoreKept st (imp n st).1) (name g0 code) (st : St)
    (habs : st.store.get name = none) : StoreKept st (loadModule env imp name g0 code st).1 := by
  have hx := moduleInit_storeKeptX env imp himp name g0 code st
  intro m id _ hm
  have hne : m ≠ name := by intro e; rw [e, habs] at hm; exact absurd hm (by simp)
  have hx' := hx m id (by simpa using hne) hm
  unfold loadModule
  split
  · next st1 f heq =>
    rw [heq] at hx'
    simp only [emit_store, Dict.get_erase, hne, if_false]; exact hx'
  · next r hnot =>
    exact hx'

theorem loadModule_wf (himp : ∀ n st, WF st → WF (imp n st).1) (name g0 code) (st : St) (h : WF st) :
    WF (loadModule env imp name g0 code st).1 := by
  have hx := moduleInit_wf env imp himp name g0 code st h
  unfold loadModule
  split
  · next st1 f heq =>
    rw [heq] at hx
    intro m id hm
    simp only [emit_store, emit_heap, Dict.get_erase] at hm ⊢
    split at hm
    · exact absurd hm (by simp)
    · exact hx m id hm
  · exact hx

theorem loadModule_ranId (himp : ∀ n st, RanIdOK st → RanIdOK (imp n st).1) (name g0 code) (st : St) (h : RanIdOK st) :
    RanIdOK (loadModule env imp name g0 code st).1 := by
  have hx := moduleInit_ranId env imp himp name g0 code st h
  unfold loadModule
  split
  · next st1 f heq =>
    rw [heq] at hx
    intro i
    have := hx i
    simp only [emit_trace, emit_heap, ranCountId_append]
    simpa using this
  · exact hx

theorem loadModule_ranName (himp : ∀ n st, RanNameOK st → RanNameOK (imp n st).1) (name g0 code) (st : St)
    (habs : st.store.get name = none) (h : RanNameOK st) :
    RanNameOK (loadModule env imp name g0 code st).1 := by
  have hx := moduleInit_ranName env imp himp name g0 code st (Or.inl habs) h
  unfold loadModule
  split
  · next st1 f heq =>
    rw [heq] at hx
    intro m hm
    have := hx m hm
    simp only [emit_trace, emit_store, ranCount_append, failedCount_append, Dict.get_erase]
    by_cases e : m = name
    · have hb : (st1.store.get m).isSome.toNat ≤ 1 := by cases (st1.store.get m).isSome <;> simp
      simp only [e, if_true] at this hb ⊢
      simp; omega
    · have e' : ¬ name = m := fun x => e x.symm
      simpa [e, e'] using this
  · exact hx

/-- a failed import leaves the name un-registered (so the next import runs the code again) -/
theorem loadModule_error_absent (name g0 code) (st st' : St) (f : Fail)
    (h : loadModule env imp name g0 code st = (st', .error f)) : st'.store.get name = none := by
  unfold loadModule at h
  split at h
  · next st1 f1 heq =>
    simp only [Prod.mk.injEq] at h
    rw [← h.1]
    simp [Dict.get_erase]
  · next r hnot =>
    rcases hm : moduleInit env imp name g0 code st with ⟨a, b⟩
    rw [hm] at h hnot
    simp only [Prod.mk.injEq] at h
    exact (hnot a f (by rw [h.2])).elim

/-- a successful `ModuleInit` returns the object it registered -/
theorem moduleInit_ok_stored (himp : ∀ n st, StoreKept st (imp n st).1) (name g0 code) (st st' : St) (id : Nat)
    (h : moduleInit env imp name g0 code st = (st', .ok id)) : st'.store.get name = some id := by
  have hs : (newSt st name g0).store.get name = some st.heap.length := by simp [newSt_store, Dict.get_set]
  rw [moduleInit_eq] at h
  cases code with
  | none =>
    simp only [Prod.mk.injEq, Except.ok.injEq] at h
    rw [← h.1, ← h.2]; exact hs
  | some body =>
    simp only at h
    have h3 := execBody_rel storeKept_rel env imp himp st.heap.length body ((newSt st name g0).emit (.ran st.heap.length name))
    split at h
    · simp at h
    · next st3 heq =>
      rw [heq] at h3
      simp only [Prod.mk.injEq, Except.ok.injEq] at h
      rw [← h.1, ← h.2]
      exact h3 name _ (by simp) hs

end init

/-! ## `ImportModuleLevelObject` -/

section importer
variable (env : Env)

theorem importModule_storeKept : ∀ fuel name st, StoreKept st (importModule env fuel name st).1 := by
  intro fuel
  induction fuel with
  | zero =>
    intro name st
    unfold importModule
    split
    · exact storeKept_rel.emit _ _ rfl
    · exact storeKept_rel.refl _
  | succ n ih =>
    intro name st
    unfold importModule
    split
    · exact storeKept_rel.emit _ _ rfl
    · next habs =>
      simp only
      split
      · exact loadModule_storeKept env _ ih _ _ _ _ habs
      · split
        · exact storeKept_rel.refl _
        · exact storeKept_rel.refl _
        · exact loadModule_storeKept env _ ih _ _ _ _ habs

theorem importModule_wf : ∀ fuel name st, WF st → WF (importModule env fuel name st).1 := by
  intro fuel
  induction fuel with
  | zero =>
    intro name st h
    unfold importModule
    split
    · exact h
    · exact h
  | succ n ih =>
    intro name st h
    unfold importModule
    split
    · exact h
    · simp only
      split
      · exact loadModule_wf env _ ih _ _ _ _ h
      · split
        · exact h
        · exact h
        · exact loadModule_wf env _ ih _ _ _ _ h

theorem importModule_ranId : ∀ fuel name st, RanIdOK st → RanIdOK (importModule env fuel name st).1 := by
  intro fuel
  induction fuel with
  | zero =>
    intro name st h
    unfold importModule
    split
    · exact ranId_rel.emit _ _ rfl h
    · exact h
  | succ n ih =>
    intro name st h
    unfold importModule
    split
    · exact ranId_rel.emit _ _ rfl h
    · simp only
      split
      · exact loadModule_ranId env _ ih _ _ _ _ h
      · split
        · exact h
        · exact h
        · exact loadModule_ranId env _ ih _ _ _ _ h

theorem importModule_ranName : ∀ fuel name st, RanNameOK st → RanNameOK (importModule env fuel name st).1 := by
  intro fuel
  induction fuel with
  | zero =>
    intro name st h
    unfold importModule
    split
    · exact ranName_rel.emit _ _ rfl h
    · exact h
  | succ n ih =>
    intro name st h
    unfold importModule
    split
    · exact ranName_rel.emit _ _ rfl h
    · next habs =>
      simp only
      split
      · exact loadModule_ranName env _ ih _ _ _ _ habs h
      · split
        · exact h
        · exact h
        · exact loadModule_ranName env _ ih _ _ _ _ habs h

/-- a successful import returns the object the store now holds under that name -/
theorem importModule_ok_stored : ∀ fuel name st st' id,
    importModule env fuel name st = (st', .ok id) → st'.store.get name = some id := by
  intro fuel name st st' id h
  unfold importModule at h
  split at h
  · next i hi =>
    simp only [Prod.mk.injEq, Except.ok.injEq] at h
    rw [← h.1, ← h.2]; exact hi
  · cases fuel with
    | zero => simp at h
    | succ n =>
      simp only at h
      have key : ∀ g0 code, loadModule env (importModule env n) name g0 code st = (st', .ok id) →
          st'.store.get name = some id := by
        intro g0 code hl
        unfold loadModule at hl
        split at hl
        · simp at hl
        · next r hnot =>
          exact moduleInit_ok_stored env _ (importModule_storeKept env n) name g0 code st st' id hl
      split at h
      · exact key _ _ h
      · split at h
        · simp at h
        · simp at h
        · exact key _ _ h

/-- an import of a loaded module runs nothing: it returns the stored object -/
theorem importModule_cached (fuel : Nat) (name : String) (st : St) (id : Nat) (h : st.store.get name = some id) :
    importModule env fuel name st = (st.emit (.hit id name), .ok id) := by
  unfold importModule; simp [h]

/-! ### termination -/

def uncached (st : St) : List String := (candidates env).filter (fun n => (st.store.get n).isNone)

theorem filter_length_mono {α} (l : List α) (p q : α → Bool) (h : ∀ x, p x = true → q x = true) :
    (l.filter p).length ≤ (l.filter q).length := by
  induction l with
  | nil => simp
  | cons x xs ih =>
    simp only [List.filter]
    cases hp : p x <;> cases hq : q x <;> simp <;> try omega
    exact absurd (h x hp) (by simp [hq])

theorem filter_length_strict {α} (l : List α) (p q : α → Bool) (h : ∀ x, p x = true → q x = true)
    (x0 : α) (hx : x0 ∈ l) (hq0 : q x0 = true) (hp0 : p x0 = false) :
    (l.filter p).length < (l.filter q).length := by
  induction l with
  | nil => simp at hx
  | cons x xs ih =>
    simp only [List.mem_cons] at hx
    simp only [List.filter]
    rcases hx with hx | hx
    · subst hx
      have := filter_length_mono xs p q h
      simp [hq0, hp0]; omega
    · have := ih hx
      cases hp : p x <;> cases hq : q x <;> simp <;> try omega
      exact absurd (h x hp) (by simp [hq])

theorem uncached_mono (a b : St) (h : StoreKept a b) : (uncached env b).length ≤ (uncached env a).length := by
  apply filter_length_mono
  intro x hx
  cases ha : a.store.get x with
  | none => rfl
  | some id => rw [h x id (by simp) ha] at hx; simp at hx

theorem uncached_newSt (st : St) (name : String) (g0 : Dict Val) (e : Ev) (hc : name ∈ candidates env)
    (habs : st.store.get name = none) :
    (uncached env ((newSt st name g0).emit e)).length < (uncached env st).length := by
  apply filter_length_strict _ _ _ _ name hc
  · simp [habs]
  · simp [newSt_store, Dict.get_set]
  · intro x hx
    simp only [emit_store, newSt_store, Dict.get_set] at hx
    by_cases e : x = name
    · simp [e] at hx
    · simpa [e] using hx

theorem resolve_mem (lab : Nat → String) (dirs : List (Dict Src)) (i : Nat) (name : String) (r : String × Src)
    (h : resolve lab dirs i name = some r) : name ∈ dirs.flatMap (·.keys) := by
  induction dirs generalizing i with
  | nil => simp [resolve] at h
  | cons d ds ih =>
    simp only [resolve] at h
    simp only [List.flatMap_cons, List.mem_append]
    split at h
    · next s hs => left; exact Dict.mem_keys_of_get d name s hs
    · right; exact ih _ h

theorem moduleInit_nofuel (imp : ImpFn) (n : Nat) (himpR : ∀ nm st, StoreKept st (imp nm st).1)
    (himp : ∀ nm st, (uncached env st).length < n → (imp nm st).2 ≠ .error .fuel)
    (name g0 code) (st : St)
    (hg : (uncached env ((newSt st name g0).emit (.ran st.heap.length name))).length < n) :
    (moduleInit env imp name g0 code st).2 ≠ .error .fuel := by
  rw [moduleInit_eq]
  cases code with
  | none => simp
  | some body =>
    simp only
    have h := execBody_nofuel env imp storeKept_rel himpR (fun s => (uncached env s).length < n)
      (fun a b hab ha => Nat.lt_of_le_of_lt (uncached_mono env a b hab) ha) himp st.heap.length body _ hg
    split
    · next st3 f heq => rw [heq] at h; simpa using h
    · simp

theorem loadModule_nofuel (imp : ImpFn) (name g0 code) (st : St)
    (h : (moduleInit env imp name g0 code st).2 ≠ .error .fuel) :
    (loadModule env imp name g0 code st).2 ≠ .error .fuel := by
  unfold loadModule
  split
  · next st1 f heq => rw [heq] at h; exact h
  · exact h

theorem importModule_nofuel : ∀ fuel name st, (uncached env st).length < fuel →
    (importModule env fuel name st).2 ≠ .error .fuel := by
  intro fuel
  induction fuel with
  | zero => intro name st h; exact absurd h (Nat.not_lt_zero _)
  | succ n ih =>
    intro name st hg
    unfold importModule
    split
    · simp
    · next habs =>
      simp only
      have key : name ∈ candidates env → ∀ g0 code,
          (loadModule env (importModule env n) name g0 code st).2 ≠ .error .fuel := by
        intro hc g0 code
        apply loadModule_nofuel
        apply moduleInit_nofuel env _ n (importModule_storeKept env n) ih
        have := uncached_newSt env st name g0 (.ran st.heap.length name) hc habs
        omega
      split
      · next impl himpl =>
        apply key
        simp only [candidates, List.mem_eraseDups, List.mem_append]
        left; exact Dict.mem_keys_of_get _ _ _ himpl
      · split
        · simp
        · simp
        · next file body hres =>
          apply key
          simp only [candidates, List.mem_eraseDups, List.mem_append]
          right; exact resolve_mem _ _ _ _ _ hres

end importer

/-! ## whole runs -/

section runs
variable (env : Env)

theorem runScript_inv (fuel : Nat) (file : String) (body : Body) (st : St) :
    (WF st → WF (runScript env fuel file body st).1) ∧
    (RanIdOK st → RanIdOK (runScript env fuel file body st).1) ∧
    (RanNameOK st → RanNameOK (runScript env fuel file body st).1) ∧
    StoreKeptX (some "__main__") st (runScript env fuel file body st).1 :=
  ⟨moduleInit_wf env _ (importModule_wf env fuel) _ _ _ st,
   moduleInit_ranId env _ (importModule_ranId env fuel) _ _ _ st,
   moduleInit_ranName env _ (importModule_ranName env fuel) _ _ _ st (Or.inr rfl),
   moduleInit_storeKeptX env _ (importModule_storeKept env fuel) _ _ _ st⟩

theorem runScripts_inv (fuel : Nat) : ∀ (scripts : List Body) (i : Nat) (st : St),
    (WF st → WF (runScripts env fuel scripts i st).1) ∧
    (RanIdOK st → RanIdOK (runScripts env fuel scripts i st).1) ∧
    (RanNameOK st → RanNameOK (runScripts env fuel scripts i st).1) ∧
    StoreKeptX (some "__main__") st (runScripts env fuel scripts i st).1 := by
  intro scripts
  induction scripts with
  | nil => intro i st; exact ⟨id, id, id, fun _ _ _ h => h⟩
  | cons b rest ih =>
    intro i st
    have h1 := runScript_inv env fuel s!"s/s{i}.py" b st
    have h2 := ih (i + 1) (runScript env fuel s!"s/s{i}.py" b st).1
    simp only [runScripts]
    exact ⟨fun h => h2.1 (h1.1 h), fun h => h2.2.1 (h1.2.1 h), fun h => h2.2.2.1 (h1.2.2.1 h),
      fun m id hx h => h2.2.2.2 m id hx (h1.2.2.2 m id hx h)⟩

theorem runScripts_nofuel : ∀ (scripts : List Body) (i : Nat) (st : St),
    ∀ r ∈ (runScripts env (fuelFor env) scripts i st).2, r ≠ .error .fuel := by
  intro scripts
  induction scripts with
  | nil => intro i st r hr; simp [runScripts] at hr
  | cons b rest ih =>
    intro i st r hr
    simp only [runScripts, List.mem_cons] at hr
    rcases hr with hr | hr
    · rw [hr]
      apply moduleInit_nofuel env _ (fuelFor env) (importModule_storeKept env _) (importModule_nofuel env _)
      have : (uncached env ((newSt st "__main__" (initGlobals "__main__" (some s!"s/s{i}.py") {})).emit
          (.ran st.heap.length "__main__"))).length ≤ (candidates env).length := List.length_filter_le _ _
      unfold fuelFor; omega
    · exact ih _ _ r hr

end runs

/-! ### `from m import *` : lookup characterisation -/

theorem starAll_get (src : Dict Val) (cur : Nat) : ∀ (l : List String) (st st' : St), cur < st.heap.length →
    starAll src cur l st = (st', none) →
    ∀ k, (st'.globalsOf cur).get k = if k ∈ l then src.get k else (st.globalsOf cur).get k := by
  intro l
  induction l with
  | nil => intro st st' _ h k; simp only [starAll, Prod.mk.injEq] at h; simp [← h.1]
  | cons x rest ih =>
    intro st st' hc h k
    simp only [starAll] at h
    split at h
    · simp at h
    · next v hv =>
      have := ih (st.setGlobal cur x v) st' (by simpa using hc) h k
      rw [this, get_setGlobal _ _ _ _ _ hc]
      by_cases hk : k = x
      · subst hk; simp [hv]
      · simp [hk]

theorem starPlain_get (src : Dict Val) (cur : Nat) : ∀ (l : List String) (st : St), cur < st.heap.length →
    ∀ k, ((starPlain src cur l st).globalsOf cur).get k =
      if k ∈ l ∧ k.startsWith "_" = false ∧ (src.get k).isSome then src.get k else (st.globalsOf cur).get k := by
  intro l
  induction l with
  | nil => intro st _ k; simp [starPlain]
  | cons x rest ih =>
    intro st hc k
    simp only [starPlain]
    split
    · next hx =>
      rw [ih st hc k]
      by_cases hk : k = x
      · subst hk; simp [hx]
      · simp [hk]
    · next hx =>
      split
      · next hnone =>
        rw [ih st hc k]
        by_cases hk : k = x
        · subst hk; simp [hnone]
        · simp [hk]
      · next v hv =>
        rw [ih _ (by simpa using hc) k, get_setGlobal _ _ _ _ _ hc]
        by_cases hk : k = x
        · subst hk; simp [hv, hx]
        · simp [hk]

theorem starAll_failure (src : Dict Val) (cur : Nat) : ∀ (l : List String) (st st' : St) (f : Fail),
    starAll src cur l st = (st', some f) → f = .raise .attributeError := by
  intro l
  induction l with
  | nil => intro st st' f h; simp [starAll] at h
  | cons x rest ih =>
    intro st st' f h
    simp only [starAll] at h
    split at h
    · simp only [Prod.mk.injEq, Option.some.injEq] at h; exact h.2.symm
    · exact ih _ _ _ h

/-! ### lower bound: a loaded module that has code has run -/

/-- does importing `m` run code?  (files and scripts always; a Go module only if it has `CodeSrc`) -/
def hasCode (env : Env) (m : String) : Bool :=
  match env.goMods.get m with
  | some impl => impl.body.isSome
  | none => true

/-- every stored module that has code has started to run -/
def RanLow (env : Env) (st : St) : Prop :=
  ∀ m id, st.store.get m = some id → hasCode env m = true → 1 ≤ ranCountId id st.trace

theorem ranCountId_le_append (id : Nat) (t : List Ev) (e : Ev) : ranCountId id t ≤ ranCountId id (t ++ [e]) := by
  rw [ranCountId_append]; omega

theorem ranLow_rel (env : Env) : Rel (fun a b => RanLow env a → RanLow env b) where
  refl := fun _ h => h
  trans := fun h1 h2 h => h2 (h1 h)
  setGlobal := by
    intro st id k v h m i hm hc
    simpa using h m i hm hc
  emit := by
    intro st e _ h m i hm hc
    exact Nat.le_trans (h m i hm hc) (ranCountId_le_append _ _ _)

theorem moduleInit_ranLow (env : Env) (imp : ImpFn) (himp : ∀ n st, RanLow env st → RanLow env (imp n st).1)
    (name g0 code) (st : St) (hcode : hasCode env name = true → code.isSome = true) (h : RanLow env st) :
    RanLow env (moduleInit env imp name g0 code st).1 := by
  apply moduleInit_post env imp (ranLow_rel env) himp (RanLow env)
  · intro a b hab ha; exact hab ha
  · intro hnone m id hm hc
    simp only [newSt_store, newSt_trace, Dict.get_set] at hm ⊢
    by_cases e : m = name
    · rw [e] at hc; have := hcode hc; rw [hnone] at this; simp at this
    · simp only [e, if_false] at hm
      exact Nat.le_trans (h m id hm hc) (ranCountId_le_append _ _ _)
  · intro _ m id hm hc
    simp only [emit_store, emit_trace, newSt_store, newSt_trace, Dict.get_set] at hm ⊢
    by_cases e : m = name
    · simp only [e, if_true, Option.some.injEq] at hm
      subst hm
      rw [ranCountId_append]; simp
    · simp only [e, if_false] at hm
      exact Nat.le_trans (h m id hm hc) (Nat.le_trans (ranCountId_le_append _ _ _) (ranCountId_le_append _ _ _))
  · intro a ha m id hm hc
    exact Nat.le_trans (ha m id hm hc) (ranCountId_le_append _ _ _)

theorem loadModule_ranLow (env : Env) (imp : ImpFn) (himp : ∀ n st, RanLow env st → RanLow env (imp n st).1)
    (name g0 code) (st : St) (hcode : hasCode env name = true → code.isSome = true) (h : RanLow env st) :
    RanLow env (loadModule env imp name g0 code st).1 := by
  have hx := moduleInit_ranLow env imp himp name g0 code st hcode h
  unfold loadModule
  split
  · next st1 f heq =>
    rw [heq] at hx
    intro m id hm hc
    simp only [emit_store, emit_trace, Dict.get_erase] at hm ⊢
    split at hm
    · exact absurd hm (by simp)
    · exact Nat.le_trans (hx m id hm hc) (ranCountId_le_append _ _ _)
  · exact hx

theorem importModule_ranLow (env : Env) : ∀ fuel name st, RanLow env st → RanLow env (importModule env fuel name st).1 := by
  intro fuel
  induction fuel with
  | zero =>
    intro name st h
    unfold importModule
    split
    · exact (ranLow_rel env).emit _ _ rfl h
    · exact h
  | succ n ih =>
    intro name st h
    unfold importModule
    split
    · exact (ranLow_rel env).emit _ _ rfl h
    · simp only
      split
      · next impl himpl =>
        exact loadModule_ranLow env _ ih _ _ _ _ (by simp [hasCode, himpl]) h
      · split
        · exact h
        · exact h
        · exact loadModule_ranLow env _ ih _ _ _ _ (by simp) h

theorem runScripts_ranLow (env : Env) (fuel : Nat) : ∀ (scripts : List Body) (i : Nat) (st : St),
    RanLow env st → RanLow env (runScripts env fuel scripts i st).1 := by
  intro scripts
  induction scripts with
  | nil => intro i st h; exact h
  | cons b rest ih =>
    intro i st h
    simp only [runScripts]
    exact ih _ _ (moduleInit_ranLow env _ (importModule_ranLow env fuel) _ _ _ st (by simp) h)

end GPy.C19
