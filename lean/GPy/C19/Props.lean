/-
C19 property theorems: a module body runs once per context; all importers share the module.

Every theorem quantifies over ALL environments (any number of Go modules, directories, files, any
bodies – hence any import graph, cyclic or not), all statement forms, all scripts (orders of first
import), all start states that satisfy the stated invariant, and all Go map iteration orders.  They
are statements about the model `importModule` / `runScripts` (Model.lean), which the correspondence
run ties to the Go code.  Helper lemmas and the invariants live in Proofs.lean.
-/
import GPy.C19.Refine
import GPy.C19.DynProofs
import GPy.C19.Generated
namespace GPy.C19

/-- **Termination** (DESIGN: `import_terminates`).  With fuel `fuelFor env` = number of loadable
module names + 1, no script of any case ever reports the model's fuel error, whatever the import
graph (cycles included).  The measure is "candidate names not in the store": a module is registered
before its code runs, so every nested body run happens with one more name cached. -/
theorem import_terminates (env : Env) (scripts : List Body) (i : Nat) (st : St) :
    ∀ r ∈ (runScripts env (fuelFor env) scripts i st).2, r ≠ .error .fuel :=
  runScripts_nofuel env scripts i st

/-- the same for one import from any state: fuel above the number of uncached candidates suffices -/
theorem import_terminates_step (env : Env) (fuel : Nat) (name : String) (st : St)
    (h : (uncached env st).length < fuel) : (importModule env fuel name st).2 ≠ .error .fuel :=
  importModule_nofuel env fuel name st h

/-- **Runs once** (DESIGN: `body_runs_once`), object level: in the trace of any run from the empty
context no module object's code starts twice. -/
theorem body_runs_once (env : Env) (fuel : Nat) (scripts : List Body) (id : Nat) :
    ranCountId id (runScripts env fuel scripts 0 {}).1.trace ≤ 1 :=
  (((runScripts_inv env fuel scripts 0 {}).2.1 (by intro i; simp [ranCountId])) id).1

/-- **Runs once**, name level: the code of module name `m` starts at most once more than imports of
`m` failed (a failed import un-registers the module, Python re-runs it on the next import). -/
theorem body_runs_once_name (env : Env) (fuel : Nat) (scripts : List Body) (m : String) (hm : m ≠ "__main__") :
    ranCount m (runScripts env fuel scripts 0 {}).1.trace
      ≤ failedCount m (runScripts env fuel scripts 0 {}).1.trace + 1 := by
  have h := (runScripts_inv env fuel scripts 0 {}).2.2.1 (by intro m _; simp [ranCount]) m hm
  have hb : ((runScripts env fuel scripts 0 {}).1.store.get m).isSome.toNat ≤ 1 := by
    cases ((runScripts env fuel scripts 0 {}).1.store.get m).isSome <;> simp
  omega

/-- … in particular exactly "at most once" when no import of `m` failed -/
theorem body_runs_once_no_failure (env : Env) (fuel : Nat) (scripts : List Body) (m : String) (hm : m ≠ "__main__")
    (hf : failedCount m (runScripts env fuel scripts 0 {}).1.trace = 0) :
    ranCount m (runScripts env fuel scripts 0 {}).1.trace ≤ 1 := by
  have := body_runs_once_name env fuel scripts m hm
  omega

/-- a module that is not in the store at the end has run exactly as often as it failed -/
theorem body_runs_match_failures (env : Env) (fuel : Nat) (scripts : List Body) (m : String) (hm : m ≠ "__main__")
    (habs : (runScripts env fuel scripts 0 {}).1.store.get m = none) :
    ranCount m (runScripts env fuel scripts 0 {}).1.trace ≤ failedCount m (runScripts env fuel scripts 0 {}).1.trace := by
  have h := (runScripts_inv env fuel scripts 0 {}).2.2.1 (by intro m _; simp [ranCount]) m hm
  rw [habs] at h
  simpa using h

/-- **Runs exactly once when imported**: at the end of any run from the empty context, every module
in the store that has code (every source module; a Go module iff it has `CodeSrc`) has had its
code started exactly once on the stored object. -/
theorem body_runs_once_exact (env : Env) (fuel : Nat) (scripts : List Body) (m : String) (id : Nat)
    (hs : (runScripts env fuel scripts 0 {}).1.store.get m = some id) (hc : hasCode env m = true) :
    ranCountId id (runScripts env fuel scripts 0 {}).1.trace = 1 := by
  have lo := runScripts_ranLow env fuel scripts 0 {} (by intro m id hm; simp [Dict.get] at hm) m id hs hc
  have hi := body_runs_once env fuel scripts id
  omega

/-- the invariants are inductive: they hold after any import from any state that has them
(this is what the three theorems above instantiate at the empty context) -/
theorem import_preserves_invariants (env : Env) (fuel : Nat) (name : String) (st : St) :
    (WF st → WF (importModule env fuel name st).1) ∧
    (RanIdOK st → RanIdOK (importModule env fuel name st).1) ∧
    (RanNameOK st → RanNameOK (importModule env fuel name st).1) :=
  ⟨importModule_wf env fuel name st, importModule_ranId env fuel name st, importModule_ranName env fuel name st⟩

/-- **Same object** (DESIGN: `same_module_object`).  Once an import of `name` returned object `id`,
any later import of `name` – from any module, with any statement form, after ANY code `body` ran in
between in any module `cur` – returns the same `id` and runs nothing (only the ghost `hit` event). -/
theorem same_module_object (env : Env) (f1 f2 f3 : Nat) (name : String) (st st1 : St) (id : Nat)
    (h1 : importModule env f1 name st = (st1, .ok id)) (cur : Nat) (body : Body) :
    importModule env f3 name (execBody env (importModule env f2) cur body st1).1 =
      ((execBody env (importModule env f2) cur body st1).1.emit (.hit id name), .ok id) := by
  apply importModule_cached
  have hs := importModule_ok_stored env f1 name st st1 id h1
  exact execBody_rel storeKept_rel env _ (importModule_storeKept env f2) cur body st1 name id (by simp) hs

/-- the store entry of every loaded module other than `__main__` survives whole scripts -/
theorem store_entries_stable (env : Env) (fuel : Nat) (scripts : List Body) (i : Nat) (st : St) (m : String) (id : Nat)
    (hm : m ≠ "__main__") (h : st.store.get m = some id) :
    (runScripts env fuel scripts i st).1.store.get m = some id :=
  (runScripts_inv env fuel scripts i st).2.2.2 m id (by simpa using hm) h

/-- **Cycles** (DESIGN: `cycle_sees_partial_module`): `ModuleInit` registers the new object before
the first statement of its code runs, so an import of `name` from inside its own (transitive) body
is a cache hit on the partially initialised object. -/
theorem registered_before_run (env : Env) (imp : ImpFn) (name : String) (g0 : Dict Val) (body : Body) (st : St) :
    let s0 := (newSt st name g0).emit (.ran st.heap.length name)
    s0.store.get name = some st.heap.length ∧
    (moduleInit env imp name g0 (some body) st).1 =
      (match execBody env imp st.heap.length body s0 with
       | (s, some _) => s
       | (s, .none) => s.emit (.finished st.heap.length name)) := by
  refine ⟨by simp [newSt_store, Dict.get_set], ?_⟩
  rw [moduleInit_eq]
  simp only
  split <;> rename_i heq <;> rw [heq]

theorem cycle_sees_partial_module (env : Env) (fuel f2 : Nat) (name : String) (g0 : Dict Val) (st : St)
    (cur : Nat) (pre : Body) :
    let s0 := (newSt st name g0).emit (.ran st.heap.length name)
    let s1 := (execBody env (importModule env f2) cur pre s0).1
    importModule env fuel name s1 = (s1.emit (.hit st.heap.length name), .ok st.heap.length) := by
  intro s0 s1
  apply importModule_cached
  exact execBody_rel storeKept_rel env _ (importModule_storeKept env f2) cur pre s0 name _ (by simp)
    (by simp [s0, newSt_store, Dict.get_set])

/-- **Mutations are shared** (DESIGN: `importer_sees_mutation`): `n.a = v` through ANY reference to
module object `id` updates the one namespace `heap[id]` that every holder of `.mod id` reads. -/
theorem importer_sees_mutation (env : Env) (imp : ImpFn) (cur : Nat) (n a : String) (v : Int) (st : St) (id : Nat)
    (hn : (st.globalsOf cur).get n = some (.mod id)) (hid : id < st.heap.length) :
    execSimple env imp cur (.mutate n a v) st = (st.setGlobal id a (.int v), none) ∧
    ((st.setGlobal id a (.int v)).globalsOf id).get a = some (.int v) ∧
    (∀ a', a' ≠ a → ((st.setGlobal id a (.int v)).globalsOf id).get a' = (st.globalsOf id).get a') := by
  refine ⟨by simp [execSimple, hn], by simp [get_setGlobal _ _ _ _ _ hid], ?_⟩
  intro a' ha
  simp [get_setGlobal _ _ _ _ _ hid, ha]

/-! ### `from m import *` -/

/-- **Star import** (DESIGN: `star_binds_exactly`).  For EVERY iteration order `env.ord` of the
source module's Go map (any function that keeps the key set), a successful `from m import *` leaves
in the importer's namespace exactly: the source's value under every name Python's rule selects
(`__all__`, or without it the names not starting with `_`), and the old value under every other name. -/
theorem star_binds_exactly (env : Env) (hord : ∀ l k, k ∈ env.ord l ↔ k ∈ l)
    (src : Dict Val) (cur : Nat) (st st' : St) (hc : cur < st.heap.length)
    (h : importStar env src cur st = (st', none)) :
    ∀ k, (st'.globalsOf cur).get k = if k ∈ starSpecNames src then src.get k else (st.globalsOf cur).get k := by
  intro k
  unfold importStar at h
  unfold starSpecNames
  split at h
  · next l hl => rw [hl]; exact starAll_get src cur l st st' hc h k
  · simp at h
  · next hnone =>
    simp only [Prod.mk.injEq, and_true] at h
    rw [hnone, ← h, starPlain_get src cur _ st hc k]
    simp only [hord, List.mem_filter, Bool.not_eq_eq_eq_not, Bool.not_true]
    by_cases hk : k ∈ src.keys
    · have := Dict.get_isSome_of_mem_keys src k hk
      simp [hk, this]
    · by_cases hu : k.startsWith "_" = false
      · simp [hk, hu]
      · simp [hk]

/-- when `__all__` lists a name the module lacks the statement raises AttributeError – never
anything else – and a non-list `__all__` raises TypeError -/
theorem star_failure_class (env : Env) (src : Dict Val) (cur : Nat) (st st' : St) (f : Fail)
    (h : importStar env src cur st = (st', some f)) : f = .raise .attributeError ∨ f = .raise .typeError := by
  unfold importStar at h
  split at h
  · next l _ => left; exact starAll_failure src cur l st st' f h
  · right; simp only [Prod.mk.injEq, Option.some.injEq] at h; exact h.2.symm
  · simp at h

/-! ### failures -/

/-- **Missing module** (DESIGN: `missing_is_importerror`): a name that is neither loaded, nor a
registered Go module, nor a file in any sys.path directory raises ImportError and changes nothing. -/
theorem missing_is_importerror (env : Env) (fuel : Nat) (name : String) (st : St)
    (h1 : st.store.get name = none) (h2 : env.goMods.get name = none) (h3 : ∀ d ∈ env.dirs, d.get name = none) :
    importModule env (fuel + 1) name st = (st, .error (.raise .importError)) := by
  have hres : ∀ (dirs : List (Dict Src)) i, (∀ d ∈ dirs, d.get name = none) → resolve env.lab dirs i name = none := by
    intro dirs
    induction dirs with
    | nil => intro i _; rfl
    | cons d ds ih =>
      intro i hd
      simp only [resolve, hd d (by simp)]
      exact ih _ (fun d' hd' => hd d' (by simp [hd']))
  unfold importModule
  simp [h1, h2, hres env.dirs 0 h3]

/-- **Missing name**: `from m import a` where `m` has no `a` raises ImportError (not AttributeError) -/
theorem missing_name_is_importerror (src cur : Nat) (a b : String) (rest : List (String × String)) (st : St)
    (h : (st.globalsOf src).get a = none) :
    fromItems src cur ((a, b) :: rest) st = (st, some (.raise .importError)) := by
  simp [fromItems, h]

/-- **The context stays usable** (DESIGN: `context_usable_after_failure`).  Whatever an import does –
in particular when it fails, at any depth of a cyclic graph – the store stays well formed (every
entry names a live object of that name), every module that was loaded before is still the same
object, and the name whose import failed is not registered, so importing it again starts afresh. -/
theorem context_usable_after_failure (env : Env) (fuel : Nat) (name : String) (st st' : St) (f : Fail)
    (hwf : WF st) (habs : st.store.get name = none)
    (h : importModule env fuel name st = (st', .error f)) :
    WF st' ∧ StoreKept st st' ∧ st'.store.get name = none := by
  have h1 := importModule_wf env fuel name st hwf
  have h2 := importModule_storeKept env fuel name st
  rw [h] at h1 h2
  refine ⟨h1, h2, ?_⟩
  unfold importModule at h
  rw [habs] at h
  simp only at h
  cases fuel with
  | zero => simp only [Prod.mk.injEq] at h; rw [← h.1]; exact habs
  | succ n =>
    simp only at h
    split at h
    · exact loadModule_error_absent env _ _ _ _ _ _ _ h
    · split at h
      · simp only [Prod.mk.injEq] at h; rw [← h.1]; exact habs
      · simp only [Prod.mk.injEq] at h; rw [← h.1]; exact habs
      · exact loadModule_error_absent env _ _ _ _ _ _ _ h

/-! ### non-vacuity: a concrete cyclic graph with a failing module -/

/-- m0 imports m1, m1 imports m0 (cycle) and then a missing module; the script imports m0 twice -/
def exEnv : Env :=
  { goMods := [("g0", {})],
    dirs := [[("m0", .code [.plain (.bind "x" 1), .tried (.imp "m1"), .plain (.log 0)]),
              ("m1", .code [.plain (.imp "m0"), .plain (.imp "nosuch")])]] }

def exRun : St := (runScripts exEnv (fuelFor exEnv) [[.plain (.imp "m0"), .plain (.impAs "m0" "again"), .tried (.imp "m1")]] 0 {}).1

example : ranCount "m0" exRun.trace = 1 ∧ ranCount "m1" exRun.trace = 2 ∧ failedCount "m1" exRun.trace = 2 := by decide
example : exRun.store.get "m0" = some 1 ∧ exRun.store.get "m1" = none := by decide
example : hasCode exEnv "m0" = true ∧ ranCountId 1 exRun.trace = 1 := by decide
example : (exRun.globalsOf 0).get "m0" = some (.mod 1) ∧ (exRun.globalsOf 0).get "again" = some (.mod 1) := by decide
/-- hypotheses of `star_binds_exactly` / `missing_is_importerror` are satisfiable -/
example : ∃ st', importStar exEnv [("x", .int 1), ("_p", .int 2)] 0 exRun = (st', none) := ⟨_, rfl⟩
example : exRun.store.get "nosuch" = none ∧ exEnv.goMods.get "nosuch" = none ∧ ∀ d ∈ exEnv.dirs, d.get "nosuch" = none := by decide

/-! ## Round 2: the model refines the reference interpreter; fuel; frame of `import *`; regenerated order -/

/-- **The model refines the spec** (DESIGN: `model_refines_spec`), outside known finding C19-K01.
For EVERY environment (any Go modules, directories, files, bodies), every Go-map iteration order
that keeps the key set, every fuel, every list of scripts in which no import statement names a
dotted module (`undotted`, the complement of `kfDotted`), started from ANY pair of related states
(in particular the empty context): the model's import machinery (store, register-before-run,
un-registration on failure, IMPORT_NAME / IMPORT_FROM / IMPORT_STAR on insertion-ordered maps) and
the reference interpreter of Spec.lean (sys.modules semantics on sorted namespaces, declarative
star import) end in related states – same store, same module objects with the same names and the
same namespaces as finite maps, the same trace event by event (ghost events included) – and return
the same result for every script.  Excluded: cases inside `kfDotted` (see `model_refines_spec_witness`). -/
theorem model_refines_spec_partial (env : Env) (hord : ∀ l k, k ∈ env.ord l ↔ k ∈ l) (fuel : Nat)
    (scripts : List Body) (hkf : kfDotted env scripts = false) (i : Nat) (st : St) (s : Spec.S) (h : Sim st s) :
    Sim (runScripts env fuel scripts i st).1 (Spec.runScripts env fuel scripts i s).1 ∧
    (runScripts env fuel scripts i st).2 = (Spec.runScripts env fuel scripts i s).2 := by
  have hu : undotted env scripts = true := by simpa [kfDotted] using hkf
  obtain ⟨henv, hsc⟩ := envOK_of_undotted env scripts hu
  exact runScripts_sim env hord henv fuel scripts i st s hsc h

/-- … hence the two OBSERVABLES the correspondence run compares (`modelV` and `specV` of the
generator: the rendered log with object identities, the script results and the final store with
every namespace) are equal for every case outside C19-K01 – what round 1 measured per case. -/
theorem model_observable_eq_spec_partial (env : Env) (hord : ∀ l k, k ∈ env.ord l ↔ k ∈ l) (fuel : Nat)
    (scripts : List Body) (hkf : kfDotted env scripts = false) :
    let m := runScripts env fuel scripts 0 {}
    let sp := Spec.runScripts env fuel scripts 0 {}
    renderRun m.1.trace m.1.heap m.1.store m.2 = renderRun sp.1.trace sp.1.objs sp.1.sysModules sp.2 := by
  intro m sp
  have h := model_refines_spec_partial env hord fuel scripts hkf 0 {} {} sim_empty
  show renderRun m.1.trace m.1.heap m.1.store m.2 = _
  rw [show m.2 = sp.2 from h.2]
  exact renderRun_congr h.1 _

/-- … and the final per-module namespaces agree name by name, the stores are equal -/
theorem final_namespaces_eq_spec_partial (env : Env) (hord : ∀ l k, k ∈ env.ord l ↔ k ∈ l) (fuel : Nat)
    (scripts : List Body) (hkf : kfDotted env scripts = false) (id : Nat) (k : String) :
    ((runScripts env fuel scripts 0 {}).1.globalsOf id).get k = ((Spec.runScripts env fuel scripts 0 {}).1.ns id).get k ∧
    (runScripts env fuel scripts 0 {}).1.store = (Spec.runScripts env fuel scripts 0 {}).1.sysModules :=
  let h := model_refines_spec_partial env hord fuel scripts hkf 0 {} {} sim_empty
  ⟨h.1.globals id k, h.1.store⟩

/-- the environment of the witness: one plain module `m0` -/
def dotEnv : Env := { goMods := [], dirs := [[("m0", .code [.plain (.bind "x" 1)])]] }

/-- **C19-K01 witness**: `import m0.x`.  Python imports the parent `m0` first (its body runs and it
stays in `sys.modules`) and then fails because `m0` is not a package; gpython looks for the file
`m0/x.py` only: `m0` is never loaded.  Both raise ImportError, the final stores differ. -/
theorem model_refines_spec_witness :
    kfDotted dotEnv [[.tried (.imp "m0.x")]] = true ∧
    (runScripts dotEnv (fuelFor dotEnv) [[.tried (.imp "m0.x")]] 0 {}).1.store.get "m0" = none ∧
    (Spec.runScripts dotEnv (fuelFor dotEnv) [[.tried (.imp "m0.x")]] 0 {}).1.sysModules.get "m0" = some 1 := by
  decide

/-- **Fuel monotonicity**: an import that did not run out of fuel is unchanged by one more unit … -/
theorem fuel_monotone (env : Env) (fuel : Nat) (name : String) (st : St)
    (h : (importModule env fuel name st).2 ≠ .error .fuel) :
    importModule env (fuel + 1) name st = importModule env fuel name st :=
  importModule_mono env fuel name st h

/-- **Fuel independence**: with at least `fuelFor env` units of fuel the whole run – final state
(heap, store, trace) and every script result – does not depend on the amount of fuel. -/
theorem fuel_independent (env : Env) (f1 f2 : Nat) (h1 : fuelFor env ≤ f1) (h2 : fuelFor env ≤ f2)
    (scripts : List Body) (i : Nat) (st : St) :
    runScripts env f1 scripts i st = runScripts env f2 scripts i st := by
  have key : ∀ f, fuelFor env ≤ f → importModule env f = importModule env (fuelFor env) := by
    intro f hf
    obtain ⟨d, rfl⟩ := Nat.exists_eq_add_of_le hf
    exact importModule_fuel_indep env d
  have run : ∀ f, fuelFor env ≤ f → ∀ scripts i st,
      runScripts env f scripts i st = runScripts env (fuelFor env) scripts i st := by
    intro f hf scripts
    induction scripts with
    | nil => intro i st; rfl
    | cons b rest ih => intro i st; simp only [runScripts, runScript, key f hf, ih]
  rw [run f1 h1, run f2 h2]

/-- **Star import, frame** (the rest of `star_binds_exactly`): whatever `from m import *` does – also
when it fails half way through `__all__` – it changes nothing but the importer's namespace: store,
trace, number of module objects, every module's name and every OTHER module's namespace are
untouched, and in the importer's namespace every name the rule does not select keeps its value. -/
theorem star_frame (env : Env) (hord : ∀ l k, k ∈ env.ord l ↔ k ∈ l) (src : Dict Val) (cur : Nat) (st : St) :
    let st' := (importStar env src cur st).1
    st'.store = st.store ∧ st'.trace = st.trace ∧ st'.heap.length = st.heap.length ∧
    (∀ j, (st'.heap.getD j default).name = (st.heap.getD j default).name) ∧
    (∀ j, j ≠ cur → st'.heap.getD j default = st.heap.getD j default) ∧
    (∀ k, k ∉ starSpecNames src → (st'.globalsOf cur).get k = (st.globalsOf cur).get k) := by
  intro st'
  have ho := importStar_onlyNs env src cur st
  refine ⟨ho.1, ho.2.1, ho.2.2.1, ho.2.2.2.1, ho.2.2.2.2, ?_⟩
  intro k hk
  show ((importStar env src cur st).1.globalsOf cur).get k = _
  unfold importStar
  unfold starSpecNames at hk
  split
  · next l hl =>
    rw [hl] at hk
    exact starAll_untouched src cur l st k hk
  · rfl
  · next hnone =>
    rw [hnone] at hk
    rw [starPlain_globals]
    have : ¬ (cur = cur ∧ cur < st.heap.length ∧ k ∈ env.ord src.keys ∧ k.startsWith "_" = false ∧ (src.get k).isSome) := by
      intro ⟨_, _, h3, h4, _⟩
      apply hk
      simp only [List.mem_filter, Bool.not_eq_eq_eq_not, Bool.not_true]
      exact ⟨(hord _ _).mp h3, h4⟩
    rw [if_neg this]

/-! ### the ORDER of effects, regenerated from the Go source by `extract/importorder` -/

/-- **Tie obligation**: the effects on the module store that `extract/importorder` read off
`NewModule`, `ModuleInit`, `RunCode` and `ImportModuleLevelObject` are, in this order: register the
new module, run its code, un-register it when the code failed.  Moving `store.modules[name] = m`
behind `RunCode` (or dropping `removeModule`) changes `Generated.orders` and breaks this proof and
with it every `…_generated` theorem below. -/
theorem generated_order_is_canonical : Generated.orders = canonicalOrders := by decide

/-- the model the driver runs – the machinery parameterised by the regenerated order – is the
hand-written model all theorems of this file are about -/
theorem generated_model_eq (env : Env) (fuel : Nat) :
    importModuleO Generated.orders env fuel = importModule env fuel ∧
    ∀ scripts i st, runScriptsO Generated.orders env fuel scripts i st = runScripts env fuel scripts i st := by
  rw [generated_order_is_canonical]
  exact ⟨importModuleO_canonical env fuel, runScriptsO_canonical env fuel⟩

/-- `import_terminates` over the model with the regenerated order -/
theorem import_terminates_generated (env : Env) (scripts : List Body) (i : Nat) (st : St) :
    ∀ r ∈ (runScriptsO Generated.orders env (fuelFor env) scripts i st).2, r ≠ .error .fuel := by
  rw [(generated_model_eq env (fuelFor env)).2]
  exact import_terminates env scripts i st

/-- `body_runs_once` over the model with the regenerated order -/
theorem body_runs_once_generated (env : Env) (fuel : Nat) (scripts : List Body) (id : Nat) :
    ranCountId id (runScriptsO Generated.orders env fuel scripts 0 {}).1.trace ≤ 1 := by
  rw [(generated_model_eq env fuel).2]
  exact body_runs_once env fuel scripts id

/-- `cycle_sees_partial_module` over the model with the regenerated order: the state in which the
first statement of a module's code runs (`runEffects` after the effects that precede `runCode`)
already holds the new object in the store, and an import of the name from inside the (transitive)
body is a cache hit on it -/
theorem cycle_sees_partial_module_generated (env : Env) (fuel f2 : Nat) (name : String) (g0 : Dict Val) (st : St)
    (cur : Nat) (pre : Body) :
    let s0 := (newSt st name g0).emit (.ran st.heap.length name)
    let s1 := (execBody env (importModuleO Generated.orders env f2) cur pre s0).1
    importModuleO Generated.orders env fuel name s1 = (s1.emit (.hit st.heap.length name), .ok st.heap.length) := by
  rw [(generated_model_eq env fuel).1, (generated_model_eq env f2).1]
  exact cycle_sees_partial_module env fuel f2 name g0 st cur pre

/-- the order with registration AFTER the code has run (what a refactoring of `ModuleInit` that
creates the module, runs it and only then stores it would give) -/
def swappedOrders : Orders :=
  { moduleInit := [.runCode, .register],
    importGo := [.runCode, .register, .unregister],
    importFile := [.runCode, .register, .unregister] }

/-- the smallest cyclic graph: `m0` imports itself -/
def selfEnv : Env := { goMods := [], dirs := [[("m0", .code [.plain (.imp "m0")])]] }

/-- **Witness: the order matters.**  With the swapped order the import of the self-importing module
`m0` does not terminate: for EVERY amount of fuel `n` the model runs out of fuel, and the body of `m0`
has been started `n` times (so more than once as soon as `n ≥ 2`), whereas with the regenerated
order one unit of fuel suffices and the body starts exactly once. -/
theorem order_swapped_witness (n : Nat) (st : St) (h : st.store.get "m0" = none) :
    (importModuleO swappedOrders selfEnv n "m0" st).2 = .error .fuel ∧
    ranCount "m0" (importModuleO swappedOrders selfEnv n "m0" st).1.trace = ranCount "m0" st.trace + n ∧
    (importModuleO swappedOrders selfEnv n "m0" st).1.store.get "m0" = none := by
  induction n generalizing st with
  | zero => simp [importModuleO, h]
  | succ n ih =>
    have hres : resolve selfEnv.lab selfEnv.dirs 0 "m0" = some ("d0/m0.py", .code [.plain (.imp "m0")]) := by decide
    have hgo : selfEnv.goMods.get "m0" = none := rfl
    unfold importModuleO
    simp only [h, hgo, hres, show swappedOrders.importFile = [.runCode, .register, .unregister] from rfl,
      loadO, runEffects, execBody, execStmt, execSimple]
    have := ih (({ st with heap := st.heap ++ [({ name := "m0", g := initGlobals "m0" (some "d0/m0.py") {} } : ModObj)] } : St).emit
      (.ran st.heap.length "m0")) (by simpa using h)
    obtain ⟨h1, h2, h3⟩ := this
    generalize importModuleO _ selfEnv n "m0" _ = r at h1 h2 h3 ⊢
    obtain ⟨st1, res⟩ := r
    simp only at h1 h2 h3
    subst h1
    simp only [emit_trace, ranCount_append] at h2
    refine ⟨by simp, ?_, by simp [Dict.get_erase]⟩
    simp at h2 ⊢
    rw [ranCount_append]
    simp only [Nat.add_zero]
    omega

example : (runScriptsO swappedOrders selfEnv 5 [[.plain (.imp "m0")]] 0 {}).2.map renderRes = ["FUEL"] ∧
    ranCount "m0" (runScriptsO swappedOrders selfEnv 5 [[.plain (.imp "m0")]] 0 {}).1.trace = 5 := by decide
example : (runScriptsO Generated.orders selfEnv 1 [[.plain (.imp "m0")]] 0 {}).2.map renderRes = ["ok"] ∧
    ranCount "m0" (runScriptsO Generated.orders selfEnv 1 [[.plain (.imp "m0")]] 0 {}).1.trace = 1 := by decide

/-- non-vacuity of the refinement theorem's hypotheses on the cyclic graph with a failing module -/
example : kfDotted exEnv [[.plain (.imp "m0"), .plain (.impAs "m0" "again"), .tried (.imp "m1")]] = false := by decide
/-- the corrected reference interpreter reads `from m import x as y, y as z` attribute by attribute -/
example :
    let env : Env := { goMods := [], dirs := [[("m0", .code [.plain (.bind "x" 1), .plain (.from_ "m0" [("x", "y"), ("y", "z")])])]] }
    ((Spec.runScripts env 3 [[.plain (.imp "m0")]] 0 {}).1.ns 1).get "z" = some (.int 1) := by decide

/-! ## Round 3: HISTORIES – the outcome of an import depends on the current state only

Dyn.lean: a world = file system + registered Go modules + contexts (each with its own store and its own
`sys.path`); a history = steps that change `sys.path`, create / replace / delete module files and
run scripts from several directories in several contexts.  `importNow` is ONE
`ImportModuleLevelObject` issued now; `runSteps` executes a history. -/

/-- the dynamic model the driver runs (order of effects regenerated from the Go source) is the
hand-written one the theorems below are about -/
theorem history_generated_model_eq (steps : List Step) (i : Nat) (w : World) :
    runStepsO Generated.orders steps i w = runSteps steps i w := by
  rw [generated_order_is_canonical]
  exact runStepsO_canonical steps i w

/-- **A failed import leaves the state as it was** (`failed_import_state_unchanged`), on the
observable components.  Whatever the reason of the failure (module not found, file does not
compile, the body raised at any depth, a nested import failed) and whatever happened before:
`sys.path` and the list of step outcomes are untouched (the file system is not even an output of
`importNow`), the name is NOT registered afterwards, every module that was loaded before is still
the same object, the store is well formed, and heap and log were only EXTENDED – the partial
effects Python keeps as well: module objects created by the failed body (garbage, or modules it
imported successfully, which stay loaded), and its log entries; no earlier object was renamed or
dropped, no earlier log entry changed. -/
theorem failed_import_state_unchanged (goMods : Dict GoImpl) (cwd : String) (fs : FS) (dir : String) (fuel : Nat)
    (name : String) (x x' : Ctx) (f : Fail) (hwf : WF x.st) (habs : x.st.store.get name = none)
    (h : importNow goMods cwd fs dir fuel name x = (x', .error f)) :
    x'.path = x.path ∧ x'.res = x.res ∧ x'.st.store.get name = none ∧ StoreKept x.st x'.st ∧ WF x'.st ∧
    Extends x.st x'.st := by
  unfold importNow at h
  simp only [Prod.mk.injEq] at h
  obtain ⟨h1, h2⟩ := h
  have hr : importModule (envNow goMods cwd fs x.path dir) fuel name x.st =
      ((importModule (envNow goMods cwd fs x.path dir) fuel name x.st).1, .error f) := by rw [← h2]
  have k := context_usable_after_failure _ fuel name x.st _ f hwf habs hr
  have e := importModule_extends (envNow goMods cwd fs x.path dir) fuel name x.st
  subst h1
  exact ⟨rfl, rfl, k.2.2, k.2.1, k.1, e⟩

/-- … and when the failure is one of the SEARCH (nothing on the current `sys.path` has the file, or
the file found does not compile) the context is exactly – every component, log included – what it
was: nothing remembers that the attempt was made. -/
theorem failed_search_state_unchanged (goMods : Dict GoImpl) (cwd : String) (fs : FS) (dir : String) (fuel : Nat)
    (name : String) (x : Ctx) (h1 : x.st.store.get name = none) (h2 : goMods.get name = none)
    (h3 : ∀ file body, resolve (envNow goMods cwd fs x.path dir).lab (envNow goMods cwd fs x.path dir).dirs 0 name
            ≠ some (file, .code body)) :
    ∃ e, (e = Err.importError ∨ e = Err.syntaxError) ∧
      importNow goMods cwd fs dir (fuel + 1) name x = (x, .error (.raise e)) := by
  unfold importNow importModule
  have hg : (envNow goMods cwd fs x.path dir).goMods.get name = none := h2
  simp only [h1, hg]
  cases hres : resolve (envNow goMods cwd fs x.path dir).lab (envNow goMods cwd fs x.path dir).dirs 0 name with
  | none => exact ⟨.importError, Or.inl rfl, rfl⟩
  | some p =>
    obtain ⟨file, src⟩ := p
    cases src with
    | bad => exact ⟨.syntaxError, Or.inr rfl, rfl⟩
    | code body => exact absurd hres (h3 file body)

/-- **The outcome of an import depends on the current state only** (core statement).  Two contexts
with the same module objects and the same store (`SameMem`: their logs – i.e. everything that
happened before, including every earlier failed attempt – may differ arbitrarily), the same
`sys.path`, and two file systems with the same content directory by directory: the next import of
any name from any directory returns the same result, leaves the same objects and the same store,
and appends the SAME events to both logs.  The model's step function has no argument besides these
components: a memo of earlier attempts would have to be added to `Ctx`/`World`, and this theorem
would then fail for it. -/
theorem import_outcome_depends_on_state_only (goMods : Dict GoImpl) (cwd : String) (fs1 fs2 : FS) (dir : String) (fuel : Nat)
    (name : String) (x y : Ctx) (hmem : SameMem x.st y.st) (hpath : x.path = y.path) (hfs : ∀ d, fs1.dir d = fs2.dir d) :
    (importNow goMods cwd fs1 dir fuel name x).2 = (importNow goMods cwd fs2 dir fuel name y).2 ∧
    SameMem (importNow goMods cwd fs1 dir fuel name x).1.st (importNow goMods cwd fs2 dir fuel name y).1.st ∧
    (importNow goMods cwd fs1 dir fuel name x).1.path = (importNow goMods cwd fs2 dir fuel name y).1.path ∧
    ∃ t, (importNow goMods cwd fs1 dir fuel name x).1.st.trace = x.st.trace ++ t ∧
         (importNow goMods cwd fs2 dir fuel name y).1.st.trace = y.st.trace ++ t := by
  unfold importNow
  simp only
  rw [hpath, envNow_congr goMods cwd fs1 fs2 y.path dir hfs]
  have k := importModule_sameMem (envNow goMods cwd fs2 y.path dir) fuel name x.st y.st hmem
  exact ⟨k.1, k.2.1, rfl, k.2.2⟩

/-- **History independence** (`import_outcome_history_independent`): take ANY two histories `h1`, `h2`
(any steps: failed attempts, retries, `sys.path` and file changes, other contexts …) from any two
worlds with the same registered Go modules and working directory.  If they lead to observably
equal states for the contexts `c1`, `c2` – same objects, same store, same `sys.path`, same file
contents – the next import has the same outcome in both. -/
theorem import_outcome_history_independent (h1 h2 : List Step) (w1 w2 : World) (c1 c2 : Nat)
    (hgo : w1.goMods = w2.goMods) (hcwd : w1.cwd = w2.cwd) (dir : String) (fuel : Nat) (name : String) :
    let a := runSteps h1 0 w1
    let b := runSteps h2 0 w2
    let x := a.ctxs.getD c1 default
    let y := b.ctxs.getD c2 default
    SameMem x.st y.st → x.path = y.path → (∀ d, a.fs.dir d = b.fs.dir d) →
    (importNow a.goMods a.cwd a.fs dir fuel name x).2 = (importNow b.goMods b.cwd b.fs dir fuel name y).2 ∧
    SameMem (importNow a.goMods a.cwd a.fs dir fuel name x).1.st (importNow b.goMods b.cwd b.fs dir fuel name y).1.st := by
  intro a b x y hmem hpath hfs
  have ea := runSteps_static h1 0 w1
  have eb := runSteps_static h2 0 w2
  have e1 : a.goMods = b.goMods := by rw [ea.1, eb.1, hgo]
  have e2 : a.cwd = b.cwd := by rw [ea.2, eb.2, hcwd]
  rw [e1, e2]
  have k := import_outcome_depends_on_state_only b.goMods b.cwd a.fs b.fs dir fuel name x y hmem hpath hfs
  exact ⟨k.1, k.2.1⟩

/-- **Runs once, along whole histories** (`runs_once` with failures and retries).  Start from any
world whose contexts are fresh; execute ANY history (imports that fail because the module is
missing, does not compile or raises; `sys.path` and file changes; retries in any form from any
directory; several contexts).  In every context, at the end: no module object's code started
twice; per module name the code started at most once more than imports of it failed – so a name
that never failed ran at most once however often and in whatever form it was imported, and a name
that is not loaded ran exactly as often as it failed; the store is well formed. -/
theorem runs_once_histories (w : World) (hfresh : ∀ x ∈ w.ctxs, x.st.heap = [] ∧ x.st.store = [] ∧ x.st.trace = [])
    (steps : List Step) : ∀ x ∈ (runSteps steps 0 w).ctxs,
    (∀ id, ranCountId id x.st.trace ≤ 1) ∧
    (∀ m, m ≠ "__main__" → ranCount m x.st.trace ≤ failedCount m x.st.trace + 1) ∧
    (∀ m, m ≠ "__main__" → x.st.store.get m = none → ranCount m x.st.trace ≤ failedCount m x.st.trace) ∧
    WF x.st := by
  have h0 : ∀ x ∈ w.ctxs, CtxInv x := by
    intro x hx
    obtain ⟨a, b, c⟩ := hfresh x hx
    refine ⟨?_, ?_, ?_⟩
    · intro m id h; rw [b] at h; simp [Dict.get] at h
    · intro i; rw [c]; simp [ranCountId]
    · intro m _; rw [c]; simp [ranCount]
  intro x hx
  obtain ⟨hwf, hid, hname⟩ := runSteps_inv steps 0 w h0 x hx
  refine ⟨fun id => (hid id).1, ?_, ?_, hwf⟩
  · intro m hm
    have h := hname m hm
    have hb : (x.st.store.get m).isSome.toNat ≤ 1 := by cases (x.st.store.get m).isSome <;> simp
    omega
  · intro m hm habs
    have h := hname m hm
    rw [habs] at h
    simpa using h

/-- the invariants are inductive over every step from every world that has them -/
theorem history_preserves_invariants (i : Nat) (w : World) (s : Step) (h : ∀ x ∈ w.ctxs, CtxInv x) :
    ∀ x ∈ (step i w s).ctxs, CtxInv x := step_inv i w s h

/-- **Contexts are isolated** (goal 3): a step addressed to another context, or a file operation,
leaves context `j` – store, objects, log, `sys.path`, outcomes – exactly as it was; in particular a
failed import in one context cannot influence what another context finds.  (The file system and the
registry are shared: `import_outcome_depends_on_state_only` says those are read afresh.) -/
theorem other_context_untouched (i : Nat) (w : World) (s : Step) (j : Nat) (hj : s.ctx ≠ some j) :
    (step i w s).ctxs.getD j default = w.ctxs.getD j default := step_other_ctx i w s j hj

/-- the spec searches the same directories (comprehension) as the model (recursion mirroring `resolveRunPath`) -/
theorem search_now_eq_spec (goMods : Dict GoImpl) (cwd : String) (fs : FS) (path : List PEnt) (cur : String) :
    envNow goMods cwd fs path cur = Spec.envNow goMods cwd fs path cur := envNow_eq goMods cwd fs path cur

/-- **The dynamic model refines the dynamic reference interpreter**, outside C19-K01: for EVERY
history whose scripts and written files name no dotted module (`StepOK`), from every pair of related
worlds whose loadable bodies name none either (`WorldOK`; in particular the generator's initial
worlds), the model (`runSteps`: per step the transliterated import machinery in the environment
computed by the recursion that mirrors `resolveRunPath`) and the reference interpreter
(`Spec.runSteps`: sys.modules semantics, candidate directories as a comprehension) end in related
worlds – per context the same store, objects, log, `sys.path` and step outcomes – and render to the
same observable (`modelV = specV` of families H, M, HR).  Excluded: dotted module names (C19-K01). -/
theorem history_refines_spec_partial (steps : List Step) (i : Nat) (w : World) (sw : Spec.SWorld)
    (hs : ∀ s ∈ steps, StepOK s) (hw : WorldOK w.goMods w.fs) (h : WSim w sw) :
    WSim (runSteps steps i w) (Spec.runSteps steps i sw) ∧
    renderWorld (runSteps steps i w) = renderSWorld (Spec.runSteps steps i sw) :=
  let k := runSteps_sim steps i w sw hs hw h
  ⟨k, renderWorld_congr k⟩

/-- **Tie obligation (goal 2)**: the struct fields, package-level variables, literal map keys and
`os` calls that `extract/importorder` finds on the import path of the Go source are exactly the
ones `modelledReads` accounts for (each mapped to a component of the model's state or to the reason
why an import's outcome cannot depend on it).  A new field or variable consulted by the import
path – a cache – changes `Generated.importReads`, breaks this proof and is named by the check. -/
theorem import_reads_pinned : Generated.importReads = modelledReads.map (·.1) := by decide

/-! non-vacuity: the optional-dependency idiom on a concrete world -/

def exWorld : World :=
  { fs := [("d0", []), ("d1", [("late", .code [.plain (.bind "x" 1)])])], ctxs := [{ path := [.abs "d0"] }] }

def exHistory : List Step :=
  [.run 0 "s" [.tried (.imp "late")], .path 0 (.append (.abs "d1")), .run 0 "s" [.tried (.imp "late"), .tried (.impAs "late" "again")]]

/-- the first attempt fails, the path is extended, the retry succeeds, the body ran once -/
example : let x := (runSteps exHistory 0 exWorld).ctxs.getD 0 default
    ranCount "late" x.st.trace = 1 ∧ (x.st.store.get "late").isSome ∧ x.res = ["ok", "ok", "ok"] ∧
    (x.st.trace.filter fun e => match e with | .caught .. => true | _ => false).length = 1 := by decide
/-- hypotheses of `failed_search_state_unchanged` / `failed_import_state_unchanged` are satisfiable -/
example : ∃ e, importNow [] "cw" exWorld.fs "s" 3 "late" { path := [.abs "d0"] } = ({ path := [.abs "d0"] }, .error (.raise e)) :=
  ⟨.importError, rfl⟩
example : ∀ x ∈ exWorld.ctxs, x.st.heap = [] ∧ x.st.store = [] ∧ x.st.trace = [] := by decide

end GPy.C19
