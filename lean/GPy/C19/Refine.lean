/-
C19: the model refines the reference interpreter of Spec.lean.

`Sim` relates a model state to a spec state: same store, module objects with the same names and the
same namespaces *as finite maps* (the model keeps Go-map insertion order, the spec keeps its
namespaces sorted), traces equal event by event up to that equivalence of the heaps an `obs` event
carries.  `Sim` is kept by every statement given that it is kept by the import function, hence
(induction on the fuel = import depth) by `importModule` and by whole runs; related runs render to
the same text (`renderRun`), because the renderer sorts every namespace it prints.
Also here: fuel monotonicity / independence, the frame of `from m import *`, and the equation between
the hand-written `importModule` and the order-parameterised `importModuleO canonicalOrders`.
-/
import GPy.C19.Proofs
namespace GPy.C19

/-! ### namespaces as finite maps -/

def DictEq (d d' : Dict Val) : Prop := ∀ k, d.get k = d'.get k

theorem DictEq.rfl' (d : Dict Val) : DictEq d d := fun _ => rfl

theorem get_cons {α} (a : String) (b : α) (d : Dict α) (k : String) :
    Dict.get ((a, b) :: d) k = if k = a then some b else Dict.get d k := by
  unfold Dict.get
  simp only [List.lookup]
  by_cases h : k = a
  · simp [h]
  · have : (k == a) = false := by simpa using h
    simp [h, this]

theorem get_nil {α} (k : String) : Dict.get ([] : Dict α) k = none := rfl

theorem nsSet_get (d : Dict Val) (k k' : String) (v : Val) :
    (Spec.nsSet d k v).get k' = if k' = k then some v else d.get k' := by
  induction d with
  | nil => simp [Spec.nsSet, get_cons, get_nil]
  | cons p d ih =>
    obtain ⟨a, b⟩ := p
    simp only [Spec.nsSet]
    split
    · next h => subst h; simp only [get_cons]; split <;> rfl
    · split
      · simp only [get_cons]
      · next hka _ =>
        simp only [get_cons, ih]
        by_cases h1 : k' = a
        · have : ¬ a = k := fun e => hka e.symm
          simp [h1, this]
        · simp [h1]

theorem DictEq.set {d d' : Dict Val} (h : DictEq d d') (k : String) (v : Val) :
    DictEq (d.set k v) (Spec.nsSet d' k v) := by
  intro k'; rw [Dict.get_set, nsSet_get, h k']

/-- folding two `set` functions that obey the same lookup law over the same list keeps `DictEq` -/
theorem DictEq.foldl {β} (f : Dict Val → β → Dict Val) (f' : Dict Val → β → Dict Val)
    (hf : ∀ d d' x, DictEq d d' → DictEq (f d x) (f' d' x)) (l : List β) :
    ∀ d d', DictEq d d' → DictEq (l.foldl f d) (l.foldl f' d') := by
  induction l with
  | nil => intro d d' h; exact h
  | cons x xs ih => intro d d' h; exact ih _ _ (hf _ _ x h)

theorem mem_keys_iff {α} (d : Dict α) (k : String) : k ∈ d.keys ↔ (d.get k).isSome := by
  constructor
  · exact Dict.get_isSome_of_mem_keys d k
  · intro h
    cases hg : d.get k with
    | none => rw [hg] at h; simp at h
    | some v => exact Dict.mem_keys_of_get d k v hg

theorem DictEq.mem_keys {d d' : Dict Val} (h : DictEq d d') (k : String) : k ∈ d.keys ↔ k ∈ d'.keys := by
  rw [mem_keys_iff, mem_keys_iff, h k]

/-! ### heaps, events, traces, states -/

def ObjEq (m m' : ModObj) : Prop := m.name = m'.name ∧ DictEq m.g m'.g

def HeapEq (h h' : List ModObj) : Prop :=
  h.length = h'.length ∧ ∀ i, ObjEq (h.getD i default) (h'.getD i default)

def EvEq : Ev → Ev → Prop
  | .obs t c h s, .obs t' c' h' s' => t = t' ∧ c = c' ∧ HeapEq h h' ∧ s = s'
  | .created i n, .created i' n' => i = i' ∧ n = n'
  | .ran i n, .ran i' n' => i = i' ∧ n = n'
  | .finished i n, .finished i' n' => i = i' ∧ n = n'
  | .failed n, .failed n' => n = n'
  | .hit i n, .hit i' n' => i = i' ∧ n = n'
  | .caught c n e, .caught c' n' e' => c = c' ∧ n = n' ∧ e = e'
  | _, _ => False

inductive TraceEq : List Ev → List Ev → Prop
  | nil : TraceEq [] []
  | cons {e e' t t'} : EvEq e e' → TraceEq t t' → TraceEq (e :: t) (e' :: t')

theorem TraceEq.snoc {t t' : List Ev} {e e' : Ev} (h : TraceEq t t') (he : EvEq e e') :
    TraceEq (t ++ [e]) (t' ++ [e']) := by
  induction h with
  | nil => exact .cons he .nil
  | cons h1 _ ih => exact .cons h1 ih

/-- the simulation relation between a model state and a spec state -/
structure Sim (st : St) (s : Spec.S) : Prop where
  store : st.store = s.sysModules
  heap : HeapEq st.heap s.objs
  trace : TraceEq st.trace s.trace

theorem sim_empty : Sim {} {} := ⟨rfl, ⟨rfl, fun _ => ⟨rfl, fun _ => rfl⟩⟩, .nil⟩

theorem Sim.globals {st s} (h : Sim st s) (id : Nat) : DictEq (st.globalsOf id) (s.ns id) := (h.heap.2 id).2

theorem Sim.name {st s} (h : Sim st s) (id : Nat) : (st.heap.getD id default).name = (s.objs.getD id default).name :=
  (h.heap.2 id).1

theorem Sim.emit {st s} (h : Sim st s) {e e'} (he : EvEq e e') : Sim (st.emit e) (s.emit e') :=
  ⟨h.store, h.heap, h.trace.snoc he⟩

theorem Sim.setGlobal {st s} (h : Sim st s) (id : Nat) (k : String) (v : Val) :
    Sim (st.setGlobal id k v) (s.setattr id k v) := by
  refine ⟨h.store, ⟨?_, ?_⟩, h.trace⟩
  · simp [St.setGlobal, Spec.S.setattr, updAt_length, h.heap.1]
  · intro i
    simp only [St.setGlobal, Spec.S.setattr, updAt_getD, h.heap.1]
    have := h.heap.2 i
    split
    · exact ⟨this.1, this.2.set k v⟩
    · exact this

/-! ### frame: a state that differs at most in the namespace of one module -/

/-- `b` differs from `a` at most in the namespace of module object `cur` -/
def OnlyNs (cur : Nat) (a b : St) : Prop :=
  b.store = a.store ∧ b.trace = a.trace ∧ b.heap.length = a.heap.length ∧
  (∀ j, (b.heap.getD j default).name = (a.heap.getD j default).name) ∧
  (∀ j, j ≠ cur → b.heap.getD j default = a.heap.getD j default)

theorem OnlyNs.refl (cur : Nat) (a : St) : OnlyNs cur a a := ⟨rfl, rfl, rfl, fun _ => rfl, fun _ _ => rfl⟩

theorem OnlyNs.trans {cur : Nat} {a b c : St} (h1 : OnlyNs cur a b) (h2 : OnlyNs cur b c) : OnlyNs cur a c :=
  ⟨h2.1.trans h1.1, h2.2.1.trans h1.2.1, h2.2.2.1.trans h1.2.2.1,
   fun j => (h2.2.2.2.1 j).trans (h1.2.2.2.1 j), fun j hj => (h2.2.2.2.2 j hj).trans (h1.2.2.2.2 j hj)⟩

theorem OnlyNs.setGlobal (cur : Nat) (a : St) (k : String) (v : Val) : OnlyNs cur a (a.setGlobal cur k v) := by
  refine ⟨rfl, rfl, by simp, fun j => setGlobal_name _ _ _ _ _, ?_⟩
  intro j hj
  simp only [St.setGlobal, updAt_getD]
  simp [hj]

theorem starAll_onlyNs (src : Dict Val) (cur : Nat) (l : List String) (st : St) :
    OnlyNs cur st (starAll src cur l st).1 := by
  induction l generalizing st with
  | nil => exact OnlyNs.refl _ _
  | cons k rest ih =>
    simp only [starAll]
    split
    · exact OnlyNs.refl _ _
    · exact (OnlyNs.setGlobal cur st _ _).trans (ih _)

theorem starPlain_onlyNs (src : Dict Val) (cur : Nat) (l : List String) (st : St) :
    OnlyNs cur st (starPlain src cur l st) := by
  induction l generalizing st with
  | nil => exact OnlyNs.refl _ _
  | cons k rest ih =>
    simp only [starPlain]
    split
    · exact ih _
    · split
      · exact ih _
      · exact (OnlyNs.setGlobal cur st _ _).trans (ih _)

theorem importStar_onlyNs (env : Env) (src : Dict Val) (cur : Nat) (st : St) :
    OnlyNs cur st (importStar env src cur st).1 := by
  simp only [importStar]
  split
  · exact starAll_onlyNs _ _ _ _
  · exact OnlyNs.refl _ _
  · exact starPlain_onlyNs _ _ _ _

theorem fromItems_onlyNs (src cur : Nat) (items : List (String × String)) (st : St) :
    OnlyNs cur st (fromItems src cur items st).1 := by
  induction items generalizing st with
  | nil => exact OnlyNs.refl _ _
  | cons p rest ih =>
    obtain ⟨a, b⟩ := p
    simp only [fromItems]
    split
    · exact OnlyNs.refl _ _
    · exact (OnlyNs.setGlobal cur st _ _).trans (ih _)

/-- lookups in every module after the map-order loop of IMPORT_STAR -/
theorem starPlain_globals (src : Dict Val) (cur : Nat) : ∀ (l : List String) (st : St) (j : Nat) (k : String),
    ((starPlain src cur l st).globalsOf j).get k =
      if j = cur ∧ j < st.heap.length ∧ k ∈ l ∧ k.startsWith "_" = false ∧ (src.get k).isSome then src.get k
      else (st.globalsOf j).get k := by
  intro l
  induction l with
  | nil => intro st j k; simp [starPlain]
  | cons x rest ih =>
    intro st j k
    simp only [starPlain]
    split
    · next hx =>
      rw [ih st j k]
      by_cases hk : k = x
      · subst hk; simp [hx]
      · simp [hk]
    · next hx =>
      split
      · next hnone =>
        rw [ih st j k]
        by_cases hk : k = x
        · subst hk; simp [hnone]
        · simp [hk]
      · next v hv =>
        rw [ih _ j k, globalsOf_setGlobal, setGlobal_heap_length]
        by_cases hj : j = cur ∧ j < st.heap.length
        · obtain ⟨hjc, hjl⟩ := hj
          subst hjc
          by_cases hk : k = x
          · subst hk; simp [hv, hx, hjl, Dict.get_set]
          · simp [hk, hjl, Dict.get_set]
        · have : ¬ (j = cur ∧ j < st.heap.length ∧ k ∈ rest ∧ k.startsWith "_" = false ∧ (src.get k).isSome) :=
            fun h => hj ⟨h.1, h.2.1⟩
          have h2 : ¬ (j = cur ∧ j < st.heap.length ∧ k ∈ x :: rest ∧ k.startsWith "_" = false ∧ (src.get k).isSome) :=
            fun h => hj ⟨h.1, h.2.1⟩
          rw [if_neg this, if_neg hj, if_neg h2]

/-! ### the spec's declarative star import -/

theorem ns_setattr (s : Spec.S) (id j : Nat) (k : String) (v : Val) :
    (s.setattr id k v).ns j = if j = id ∧ j < s.objs.length then Spec.nsSet (s.ns j) k v else s.ns j := by
  simp only [Spec.S.ns, Spec.S.setattr, updAt_getD]
  split <;> rfl

theorem setattr_length (s : Spec.S) (id : Nat) (k : String) (v : Val) :
    (s.setattr id k v).objs.length = s.objs.length := by simp [Spec.S.setattr, updAt_length]

theorem setattr_name (s : Spec.S) (id j : Nat) (k : String) (v : Val) :
    ((s.setattr id k v).objs.getD j default).name = (s.objs.getD j default).name := by
  simp only [Spec.S.setattr, updAt_getD]
  split <;> rfl

/-- binding the names `names` (all present in the snapshot `ns`) one after the other: never fails,
touches only the namespace of `cur`, and leaves there `ns`'s value under exactly those names -/
theorem bindAll_diag (missing : Err) (ns : Dict Val) (cur : Nat) : ∀ (names : List String) (s : Spec.S),
    (∀ k ∈ names, (ns.get k).isSome) →
    let r := Spec.bindAll missing ns cur (names.map fun k => (k, k)) s
    r.2 = none ∧ r.1.sysModules = s.sysModules ∧ r.1.trace = s.trace ∧ r.1.objs.length = s.objs.length ∧
    (∀ j, (r.1.objs.getD j default).name = (s.objs.getD j default).name) ∧
    (∀ j k, (r.1.ns j).get k =
      if j = cur ∧ j < s.objs.length ∧ k ∈ names then ns.get k else (s.ns j).get k) := by
  intro names
  induction names with
  | nil => intro s _; simp [Spec.bindAll]
  | cons x rest ih =>
    intro s hall
    have hx := hall x (by simp)
    cases hg : ns.get x with
    | none => rw [hg] at hx; simp at hx
    | some v =>
      have := ih (s.setattr cur x v) (fun k hk => hall k (by simp [hk]))
      simp only [List.map_cons, Spec.bindAll, hg]
      obtain ⟨h1, h2, h3, h4, h5, h6⟩ := this
      refine ⟨h1, h2, h3, by rw [h4, setattr_length], fun j => by rw [h5, setattr_name], ?_⟩
      intro j k
      rw [h6, setattr_length, ns_setattr]
      by_cases hj : j = cur ∧ j < s.objs.length
      · obtain ⟨hjc, hjl⟩ := hj
        subst hjc
        by_cases hk : k = x
        · subst hk; simp [hjl, hg, nsSet_get]
        · simp [hk, hjl, nsSet_get]
      · have a1 : ¬ (j = cur ∧ j < s.objs.length ∧ k ∈ rest) := fun h => hj ⟨h.1, h.2.1⟩
        have a2 : ¬ (j = cur ∧ j < s.objs.length ∧ k ∈ x :: rest) := fun h => hj ⟨h.1, h.2.1⟩
        rw [if_neg a1, if_neg hj, if_neg a2]

/-! ### statements -/

/-- module names without a dot (the fragment outside known finding C19-K01) -/
def Undot (name : String) : Prop := Spec.dottedHead name = none

/-- the import function of the model simulates the import function of the spec -/
def ImpSim (imp : ImpFn) (imp' : Spec.Imp) : Prop :=
  ∀ name st s, Undot name → Sim st s → Sim (imp name st).1 (imp' name s).1 ∧ (imp name st).2 = (imp' name s).2

theorem fromItems_sim (src cur : Nat) (items : List (String × String)) : ∀ st s, Sim st s →
    Sim (fromItems src cur items st).1 (Spec.bindFrom src cur items s).1 ∧
    (fromItems src cur items st).2 = (Spec.bindFrom src cur items s).2 := by
  induction items with
  | nil => intro st s h; exact ⟨h, rfl⟩
  | cons p rest ih =>
    obtain ⟨a, b⟩ := p
    intro st s h
    have hg := h.globals src a
    simp only [fromItems, Spec.bindFrom, ← hg]
    cases (st.globalsOf src).get a with
    | none => exact ⟨h, rfl⟩
    | some v => exact ih _ _ (h.setGlobal cur b v)

theorem starAll_sim (src ns : Dict Val) (hsrc : DictEq src ns) (cur : Nat) (l : List String) : ∀ st s, Sim st s →
    Sim (starAll src cur l st).1 (Spec.bindAll .attributeError ns cur (l.map fun k => (k, k)) s).1 ∧
    (starAll src cur l st).2 = (Spec.bindAll .attributeError ns cur (l.map fun k => (k, k)) s).2 := by
  induction l with
  | nil => intro st s h; exact ⟨h, rfl⟩
  | cons x rest ih =>
    intro st s h
    simp only [starAll, List.map_cons, Spec.bindAll, ← hsrc x]
    cases src.get x with
    | none => exact ⟨h, rfl⟩
    | some v => exact ih _ _ (h.setGlobal cur x v)

theorem importStar_sim (env : Env) (hord : ∀ l k, k ∈ env.ord l ↔ k ∈ l) (id cur : Nat) (st : St) (s : Spec.S)
    (h : Sim st s) :
    let r' := match Spec.starNames (s.ns id) with
      | .error e => (s, some (Fail.raise e))
      | .ok names => Spec.bindAll .attributeError (s.ns id) cur (names.map fun k => (k, k)) s
    Sim (importStar env (st.globalsOf id) cur st).1 r'.1 ∧ (importStar env (st.globalsOf id) cur st).2 = r'.2 := by
  have hsrc := h.globals id
  simp only [importStar, Spec.starNames, ← hsrc "__all__"]
  cases hall : (st.globalsOf id).get "__all__" with
  | some v =>
    cases v with
    | names l => exact starAll_sim _ _ hsrc cur l st s h
    | int n => exact ⟨h, rfl⟩
    | mod i => exact ⟨h, rfl⟩
    | str x => exact ⟨h, rfl⟩
    | none => exact ⟨h, rfl⟩
    | fn => exact ⟨h, rfl⟩
  | none =>
    simp only
    have hb := bindAll_diag .attributeError (s.ns id) cur
      ((s.ns id).keys.filter fun k => !k.startsWith "_") s (by
        intro k hk
        exact Dict.get_isSome_of_mem_keys _ _ (List.mem_filter.mp hk).1)
    obtain ⟨h1, h2, h3, h4, h5, h6⟩ := hb
    have ho := starPlain_onlyNs (st.globalsOf id) cur (env.ord (st.globalsOf id).keys) st
    refine ⟨⟨?_, ⟨?_, ?_⟩, ?_⟩, h1.symm⟩
    · rw [ho.1, h2]; exact h.store
    · rw [ho.2.2.1, h4]; exact h.heap.1
    · intro j
      refine ⟨?_, ?_⟩
      · rw [ho.2.2.2.1 j, h5 j]; exact h.name j
      · intro k
        change ((starPlain (st.globalsOf id) cur (env.ord (st.globalsOf id).keys) st).globalsOf j).get k =
          ((Spec.bindAll .attributeError (s.ns id) cur
            (((s.ns id).keys.filter fun k => !k.startsWith "_").map fun k => (k, k)) s).1.ns j).get k
        rw [starPlain_globals, h6 j k, ← h.heap.1]
        have hkeys : k ∈ (st.globalsOf id).keys ↔ k ∈ (s.ns id).keys := hsrc.mem_keys k
        simp only [hord, List.mem_filter, Bool.not_eq_eq_eq_not, Bool.not_true, ← hkeys, ← hsrc k, ← h.globals j k]
        by_cases hm : k ∈ (st.globalsOf id).keys
        · have := Dict.get_isSome_of_mem_keys _ _ hm
          simp [hm, this]
        · simp [hm]
    · rw [ho.2.1, h3]; exact h.trace

def SimpleOK (sm : Simple) : Prop := ∀ m, sm.target = some m → Undot m
def BodyOK (b : Body) : Prop := ∀ x ∈ b, SimpleOK x.simple

section stmts
variable (env : Env) (hord : ∀ l k, k ∈ env.ord l ↔ k ∈ l) (imp : ImpFn) (imp' : Spec.Imp) (himp : ImpSim imp imp')
include hord himp

theorem execSimple_sim (cur : Nat) (sm : Simple) (hok : SimpleOK sm) (st : St) (s : Spec.S) (h : Sim st s) :
    Sim (execSimple env imp cur sm st).1 (Spec.stmt imp' cur sm s).1 ∧
    (execSimple env imp cur sm st).2 = (Spec.stmt imp' cur sm s).2 := by
  cases sm with
  | imp m =>
    have := himp m st s (hok m rfl) h
    simp only [execSimple, Spec.stmt]
    rcases hi : imp m st with ⟨st1, r⟩
    rcases hi' : imp' m s with ⟨s1, r'⟩
    rw [hi, hi'] at this
    obtain ⟨hs, hr⟩ := this
    simp only at hr hs
    subst hr
    cases r with
    | error f => exact ⟨hs, rfl⟩
    | ok id => exact ⟨hs.setGlobal _ _ _, rfl⟩
  | impAs m n =>
    have := himp m st s (hok m rfl) h
    simp only [execSimple, Spec.stmt]
    rcases hi : imp m st with ⟨st1, r⟩
    rcases hi' : imp' m s with ⟨s1, r'⟩
    rw [hi, hi'] at this
    obtain ⟨hs, hr⟩ := this
    simp only at hr hs
    subst hr
    cases r with
    | error f => exact ⟨hs, rfl⟩
    | ok id => exact ⟨hs.setGlobal _ _ _, rfl⟩
  | from_ m items =>
    have := himp m st s (hok m rfl) h
    simp only [execSimple, Spec.stmt]
    rcases hi : imp m st with ⟨st1, r⟩
    rcases hi' : imp' m s with ⟨s1, r'⟩
    rw [hi, hi'] at this
    obtain ⟨hs, hr⟩ := this
    simp only at hr hs
    subst hr
    cases r with
    | error f => exact ⟨hs, rfl⟩
    | ok id => exact fromItems_sim id cur items _ _ hs
  | star m =>
    have := himp m st s (hok m rfl) h
    simp only [execSimple, Spec.stmt]
    rcases hi : imp m st with ⟨st1, r⟩
    rcases hi' : imp' m s with ⟨s1, r'⟩
    rw [hi, hi'] at this
    obtain ⟨hs, hr⟩ := this
    simp only at hr hs
    subst hr
    cases r with
    | error f => exact ⟨hs, rfl⟩
    | ok id => exact importStar_sim env hord id cur _ _ hs
  | rel m a => exact ⟨h, rfl⟩
  | bind x v => exact ⟨h.setGlobal _ _ _, rfl⟩
  | setAll l => exact ⟨h.setGlobal _ _ _, rfl⟩
  | mutate n a v =>
    simp only [execSimple, Spec.stmt, ← h.globals cur n]
    cases (st.globalsOf cur).get n with
    | none => exact ⟨h, rfl⟩
    | some w =>
      cases w with
      | mod i => exact ⟨h.setGlobal _ _ _, rfl⟩
      | int n => exact ⟨h, rfl⟩
      | names l => exact ⟨h, rfl⟩
      | str x => exact ⟨h, rfl⟩
      | none => exact ⟨h, rfl⟩
      | fn => exact ⟨h, rfl⟩
  | log tag =>
    refine ⟨h.emit ?_, rfl⟩
    exact ⟨rfl, rfl, h.heap, h.store⟩

theorem execBody_sim (cur : Nat) (body : Body) (hok : BodyOK body) : ∀ (st : St) (s : Spec.S), Sim st s →
    Sim (execBody env imp cur body st).1 (Spec.block imp' cur body s).1 ∧
    (execBody env imp cur body st).2 = (Spec.block imp' cur body s).2 := by
  induction body with
  | nil => intro st s h; exact ⟨h, rfl⟩
  | cons x rest ih =>
    intro st s h
    have hrest : BodyOK rest := fun y hy => hok y (by simp [hy])
    cases x with
    | plain sm =>
      have := execSimple_sim env hord imp imp' himp cur sm (hok (.plain sm) (by simp)) st s h
      simp only [execBody, execStmt, Spec.block]
      rcases hi : execSimple env imp cur sm st with ⟨st1, r⟩
      rcases hi' : Spec.stmt imp' cur sm s with ⟨s1, r'⟩
      rw [hi, hi'] at this
      obtain ⟨hs, hr⟩ := this
      simp only at hr hs
      subst hr
      cases r with
      | none => exact ih hrest _ _ hs
      | some f => exact ⟨hs, rfl⟩
    | tried sm =>
      have := execSimple_sim env hord imp imp' himp cur sm (hok (.tried sm) (by simp)) st s h
      simp only [execBody, execStmt, Spec.block]
      rcases hi : execSimple env imp cur sm st with ⟨st1, r⟩
      rcases hi' : Spec.stmt imp' cur sm s with ⟨s1, r'⟩
      rw [hi, hi'] at this
      obtain ⟨hs, hr⟩ := this
      simp only at hr hs
      subst hr
      cases r with
      | none => exact ih hrest _ _ hs
      | some f =>
        cases f with
        | fuel => exact ⟨hs, rfl⟩
        | raise e =>
          refine ih hrest _ _ (hs.emit ?_)
          exact ⟨rfl, hs.name cur, rfl⟩

end stmts

/-! ### module creation -/

theorem copy_nsOfList (d : Dict Val) : DictEq d.copy (Spec.nsOfList d) := by
  unfold Dict.copy Spec.nsOfList
  exact DictEq.foldl _ _ (fun d d' x h => h.set x.1 x.2) d [] [] (DictEq.rfl' _)

theorem initGlobals_freshNs (name : String) (file : Option String) (impl : GoImpl) :
    DictEq (initGlobals name file impl) (Spec.freshNs name file impl.globals impl.methods) := by
  unfold initGlobals Spec.freshNs Spec.nsOfList
  simp only [List.foldl_append, List.foldl_map, List.foldl_cons, List.foldl_nil]
  have h1 : DictEq (impl.methods.foldl (fun g m => g.set m .fn) impl.globals.copy)
      (impl.methods.foldl (fun d m => Spec.nsSet d m Val.fn) (impl.globals.foldl (fun d p => Spec.nsSet d p.1 p.2) [])) :=
    DictEq.foldl _ _ (fun d d' x h => h.set x .fn) _ _ _ (copy_nsOfList impl.globals)
  have h2 := ((h1.set "__name__" (.str name)).set "__doc__" (.str "")).set "__package__" .none
  cases file with
  | none => simpa using h2
  | some f => simpa using h2.set "__file__" (.str f)

theorem resolve_eq_findPath (lab : Nat → String) (dirs : List (Dict Src)) (i : Nat) (name : String) :
    resolve lab dirs i name = Spec.findPath lab dirs i name := by
  induction dirs generalizing i with
  | nil => rfl
  | cons d ds ih =>
    simp only [resolve, Spec.findPath]
    cases d.get name with
    | none => exact ih _
    | some s => rfl

theorem heapEq_snoc {h : List ModObj} {h' : List ModObj} (hh : HeapEq h h') {m m' : ModObj} (hm : ObjEq m m') :
    HeapEq (h ++ [m]) (h' ++ [m']) := by
  refine ⟨by simp [hh.1], ?_⟩
  intro i
  have hl := hh.1
  rcases Nat.lt_trichotomy i h.length with hi | hi | hi
  · rw [getD_append_lt _ _ _ hi, getD_append_lt _ _ _ (hh.1 ▸ hi)]; exact hh.2 i
  · have hi' : i = h'.length := hh.1 ▸ hi
    rw [hi, getD_append_length]
    rw [hi.symm, hi', getD_append_length]; exact hm
  · have e1 : (h ++ [m]).getD i default = default := by
      simp [List.getD, List.getElem?_eq_none (show (h ++ [m]).length ≤ i by simp; omega)]
    have e2 : (h' ++ [m']).getD i default = default := by
      simp [List.getD, List.getElem?_eq_none (show (h' ++ [m']).length ≤ i by simp; omega)]
    rw [e1, e2]; exact ⟨rfl, DictEq.rfl' _⟩

section loads
variable (env : Env) (hord : ∀ l k, k ∈ env.ord l ↔ k ∈ l) (imp : ImpFn) (imp' : Spec.Imp) (himp : ImpSim imp imp')
include hord himp

/-- `ModuleInit` (+ the un-registration at the import boundary iff `uncache`) simulates `Spec.load` -/
theorem load_sim (uncache : Bool) (name : String) (g0 ns : Dict Val) (hg : DictEq g0 ns) (code : Option Body)
    (hcode : ∀ b, code = some b → BodyOK b) (st : St) (s : Spec.S) (h : Sim st s) :
    let r := if uncache then loadModule env imp name g0 code st else moduleInit env imp name g0 code st
    Sim r.1 (Spec.load imp' name ns code uncache s).1 ∧ r.2 = (Spec.load imp' name ns code uncache s).2 := by
  have hlen := h.heap.1
  have hnew : Sim (newSt st name g0)
      (({ s with objs := s.objs ++ [({ name := name, g := ns } : ModObj)],
                 sysModules := s.sysModules.set name s.objs.length } : Spec.S).emit (.created s.objs.length name)) := by
    refine ⟨?_, ?_, ?_⟩
    · simp [newSt, Spec.S.emit, h.store, hlen]
    · exact heapEq_snoc h.heap ⟨rfl, hg⟩
    · exact h.trace.snoc ⟨hlen, rfl⟩
  have key : Sim (moduleInit env imp name g0 code st).1 (Spec.load imp' name ns code false s).1 ∧
      (moduleInit env imp name g0 code st).2 = (Spec.load imp' name ns code false s).2 ∧
      (∀ f, (moduleInit env imp name g0 code st).2 = .error f →
        Sim (loadModule env imp name g0 code st).1 (Spec.load imp' name ns code true s).1 ∧
        (loadModule env imp name g0 code st).2 = (Spec.load imp' name ns code true s).2) ∧
      (∀ i, (moduleInit env imp name g0 code st).2 = .ok i →
        loadModule env imp name g0 code st = moduleInit env imp name g0 code st ∧
        Spec.load imp' name ns code true s = Spec.load imp' name ns code false s) := by
    unfold loadModule
    rw [moduleInit_eq]
    unfold Spec.load
    cases code with
    | none =>
      simp only
      refine ⟨hnew, by rw [hlen], by intro f hf; simp at hf, by intro i _; simp⟩
    | some body =>
      simp only
      have hb := execBody_sim env hord imp imp' himp st.heap.length body (hcode body rfl) _ _
        (hnew.emit (e := .ran st.heap.length name) (e' := .ran s.objs.length name) ⟨hlen, rfl⟩)
      rw [← hlen]
      rw [← hlen] at hb
      generalize execBody env imp st.heap.length body _ = rm at hb ⊢
      generalize Spec.block imp' st.heap.length body _ = rs at hb ⊢
      obtain ⟨st3, r⟩ := rm
      obtain ⟨s3, r'⟩ := rs
      obtain ⟨hs, hr⟩ := hb
      simp only at hs hr
      subst hr
      cases r with
      | none =>
        simp only
        refine ⟨hs.emit ?_, by simp, by intro f hf; simp at hf, by intro i _; simp⟩
        exact ⟨rfl, rfl⟩
      | some f =>
        simp only
        refine ⟨hs, by simp, ?_, by intro i hi; simp at hi⟩
        intro f' _
        refine ⟨?_, by simp⟩
        have : Sim ({ st3 with store := st3.store.erase name } : St) ({ s3 with sysModules := s3.sysModules.erase name } : Spec.S) :=
          ⟨by simp [hs.store], hs.heap, hs.trace⟩
        exact this.emit (e := .failed name) (e' := .failed name) rfl
  cases uncache with
  | false => exact ⟨key.1, key.2.1⟩
  | true =>
    simp only [if_true]
    cases hres : (moduleInit env imp name g0 code st).2 with
    | error f => exact key.2.2.1 f hres
    | ok i =>
      obtain ⟨e1, e2⟩ := key.2.2.2 i hres
      rw [e1, e2]; exact ⟨key.1, key.2.1⟩

end loads

/-! ### `ImportModuleLevelObject`, whole runs -/

/-- every body the environment can load is outside the dotted-name region -/
def EnvOK (env : Env) : Prop :=
  (∀ name impl b, env.goMods.get name = some impl → impl.body = some b → BodyOK b) ∧
  (∀ name file b, resolve env.lab env.dirs 0 name = some (file, .code b) → BodyOK b)

theorem Spec.importModule_undot (env : Env) (fuel : Nat) (name : String) (s : Spec.S) (hu : Undot name) :
    Spec.importModule env fuel name s =
      Spec.importPlain env (match fuel with | 0 => .none | f + 1 => some (Spec.importModule env f)) name s := by
  unfold Undot at hu
  cases fuel with
  | zero => simp only [Spec.importModule, hu, Option.getD_none, Spec.notPackage]
  | succ n => simp only [Spec.importModule, hu, Option.getD_none, Spec.notPackage]

theorem importModule_sim (env : Env) (hord : ∀ l k, k ∈ env.ord l ↔ k ∈ l) (henv : EnvOK env) :
    ∀ fuel, ImpSim (importModule env fuel) (Spec.importModule env fuel) := by
  intro fuel
  induction fuel with
  | zero =>
    intro name st s hu h
    rw [Spec.importModule_undot env 0 name s hu]
    unfold importModule Spec.importPlain
    rw [← h.store]
    cases hg : st.store.get name with
    | some id => exact ⟨h.emit ⟨rfl, rfl⟩, rfl⟩
    | none => exact ⟨h, rfl⟩
  | succ n ih =>
    intro name st s hu h
    rw [Spec.importModule_undot env (n + 1) name s hu]
    unfold importModule Spec.importPlain
    rw [← h.store, ← resolve_eq_findPath]
    cases hg : st.store.get name with
    | some id => exact ⟨h.emit ⟨rfl, rfl⟩, rfl⟩
    | none =>
      simp only
      cases hgo : env.goMods.get name with
      | some impl =>
        exact load_sim env hord _ _ ih true name _ _ (initGlobals_freshNs name .none impl) impl.body
          (fun b hb => henv.1 name impl b hgo hb) st s h
      | none =>
        simp only
        cases hres : resolve env.lab env.dirs 0 name with
        | none => exact ⟨h, rfl⟩
        | some p =>
          obtain ⟨file, src⟩ := p
          cases src with
          | bad => exact ⟨h, rfl⟩
          | code body =>
            have := load_sim env hord _ _ ih true name _ _ (initGlobals_freshNs name (some file) {}) (some body)
              (fun b hb => by cases hb; exact henv.2 name file body hres) st s h
            exact this

theorem runScripts_sim (env : Env) (hord : ∀ l k, k ∈ env.ord l ↔ k ∈ l) (henv : EnvOK env) (fuel : Nat) :
    ∀ (scripts : List Body) (i : Nat) (st : St) (s : Spec.S), (∀ b ∈ scripts, BodyOK b) → Sim st s →
    Sim (runScripts env fuel scripts i st).1 (Spec.runScripts env fuel scripts i s).1 ∧
    (runScripts env fuel scripts i st).2 = (Spec.runScripts env fuel scripts i s).2 := by
  intro scripts
  induction scripts with
  | nil => intro i st s _ h; exact ⟨h, rfl⟩
  | cons b rest ih =>
    intro i st s hok h
    have h1 := load_sim env hord _ _ (importModule_sim env hord henv fuel) false "__main__" _ _
      (initGlobals_freshNs "__main__" (some s!"s/s{i}.py") {}) (some b)
      (fun b' hb => by cases hb; exact hok b (by simp)) st s h
    simp only [Bool.false_eq_true, if_false] at h1
    have h2 := ih (i + 1) _ _ (fun b' hb => hok b' (by simp [hb])) h1.1
    simp only [runScripts, Spec.runScripts, runScript]
    refine ⟨h2.1, ?_⟩
    rw [h1.2, h2.2]

/-! ### the renderer cannot tell related runs apart -/

section sorting
variable {α : Type}

def SortedKeys (l : List (String × α)) : Prop := l.Pairwise (fun p q => p.1 < q.1)

theorem sorted_get_none_of_lt {q : String × α} {l : List (String × α)} (hs : SortedKeys (q :: l)) {k : String}
    (hk : k < q.1) : Dict.get (q :: l) k = none := by
  induction l generalizing q with
  | nil =>
    rw [show q = (q.1, q.2) from rfl, get_cons]
    have : k ≠ q.1 := fun e => String.lt_irrefl _ (e ▸ hk)
    simp [this, get_nil]
  | cons r t ih =>
    rw [show q = (q.1, q.2) from rfl, get_cons]
    have : k ≠ q.1 := fun e => String.lt_irrefl _ (e ▸ hk)
    simp only [this, if_false]
    have hs' := List.pairwise_cons.mp hs
    exact ih hs'.2 (String.lt_trans hk (hs'.1 r (by simp)))

theorem sorted_tail_get_none {q : String × α} {l : List (String × α)} (hs : SortedKeys (q :: l)) :
    Dict.get l q.1 = none := by
  cases l with
  | nil => rfl
  | cons r t =>
    have hs' := List.pairwise_cons.mp hs
    exact sorted_get_none_of_lt hs'.2 (hs'.1 r (by simp))

theorem lt_of_not_lt_of_ne {a b : String} (h1 : ¬ a < b) (h2 : a ≠ b) : b < a :=
  Std.lt_of_le_of_ne (String.not_lt.mp h1) (Ne.symm h2)

theorem insSorted_mem (p : String × α) (l : List (String × α)) (x : String × α) (hx : x ∈ insSorted p l) :
    x = p ∨ x ∈ l := by
  induction l with
  | nil => simp [insSorted] at hx; exact Or.inl hx
  | cons q t ih =>
    simp only [insSorted] at hx
    split at hx
    · simp only [List.mem_cons] at hx ⊢; exact hx
    · split at hx
      · exact Or.inr hx
      · simp only [List.mem_cons] at hx ⊢
        rcases hx with hx | hx
        · exact Or.inr (Or.inl hx)
        · rcases ih hx with h | h
          · exact Or.inl h
          · exact Or.inr (Or.inr h)

theorem insSorted_sorted (p : String × α) (l : List (String × α)) (hs : SortedKeys l) : SortedKeys (insSorted p l) := by
  induction l with
  | nil => simp [insSorted, SortedKeys]
  | cons q t ih =>
    have hs' := List.pairwise_cons.mp hs
    simp only [insSorted]
    split
    · next hlt =>
      refine List.pairwise_cons.mpr ⟨?_, hs⟩
      intro x hx
      simp only [List.mem_cons] at hx
      rcases hx with hx | hx
      · rw [hx]; exact hlt
      · exact String.lt_trans hlt (hs'.1 x hx)
    · next hnlt =>
      split
      · exact hs
      · next hne =>
        refine List.pairwise_cons.mpr ⟨?_, ih hs'.2⟩
        intro x hx
        rcases insSorted_mem p t x hx with h | h
        · rw [h]; exact lt_of_not_lt_of_ne hnlt hne
        · exact hs'.1 x h

theorem insSorted_get (p : String × α) (l : List (String × α)) (hs : SortedKeys l) (k : String) :
    Dict.get (insSorted p l) k = if k = p.1 then (match Dict.get l k with | some v => some v | none => some p.2) else Dict.get l k := by
  induction l with
  | nil =>
    simp only [insSorted]
    rw [show p = (p.1, p.2) from rfl, get_cons]
    simp [get_nil]
  | cons q t ih =>
    have hs' := List.pairwise_cons.mp hs
    simp only [insSorted]
    split
    · next hlt =>
      rw [show (p :: q :: t) = ((p.1, p.2) :: q :: t) from rfl, get_cons]
      by_cases hk : k = p.1
      · subst hk; simp [sorted_get_none_of_lt hs hlt]
      · simp [hk]
    · next hnlt =>
      split
      · next heq =>
        by_cases hk : k = p.1
        · subst hk
          rw [show (q :: t) = ((q.1, q.2) :: t) from rfl, get_cons]
          simp [heq]
        · simp [hk]
      · next hne =>
        rw [show (q :: insSorted p t) = ((q.1, q.2) :: insSorted p t) from rfl, get_cons, ih hs'.2,
          show (q :: t) = ((q.1, q.2) :: t) from rfl, get_cons]
        by_cases hk : k = p.1
        · subst hk; simp [hne]
        · simp [hk]

theorem foldl_insSorted (d : List (String × α)) : ∀ (acc : List (String × α)), SortedKeys acc →
    SortedKeys (d.foldl (fun acc p => insSorted p acc) acc) ∧
    ∀ k, Dict.get (d.foldl (fun acc p => insSorted p acc) acc) k =
      match Dict.get acc k with | some v => some v | none => Dict.get d k := by
  induction d with
  | nil => intro acc hs; refine ⟨hs, fun k => ?_⟩; simp only [List.foldl_nil, get_nil]; cases Dict.get acc k <;> rfl
  | cons p d ih =>
    intro acc hs
    have := ih (insSorted p acc) (insSorted_sorted p acc hs)
    refine ⟨this.1, fun k => ?_⟩
    simp only [List.foldl_cons]
    rw [this.2 k, insSorted_get p acc hs k, show (p :: d) = ((p.1, p.2) :: d) from rfl, get_cons]
    by_cases hk : k = p.1
    · subst hk; cases Dict.get acc p.1 <;> simp
    · simp [hk]

theorem sortDict_sorted (d : Dict α) : SortedKeys (sortDict d) := (foldl_insSorted d [] List.Pairwise.nil).1

theorem sortDict_get (d : Dict α) (k : String) : Dict.get (sortDict d) k = Dict.get d k := by
  have := (foldl_insSorted d [] List.Pairwise.nil).2 k
  simpa [sortDict, get_nil] using this

theorem sorted_ext : ∀ (l l' : List (String × α)), SortedKeys l → SortedKeys l' →
    (∀ k, Dict.get l k = Dict.get l' k) → l = l' := by
  intro l
  induction l with
  | nil =>
    intro l' _ _ h
    cases l' with
    | nil => rfl
    | cons q t =>
      have := h q.1
      rw [show (q :: t) = ((q.1, q.2) :: t) from rfl, get_cons] at this
      simp [get_nil] at this
  | cons p t ih =>
    intro l' hs hs' h
    cases l' with
    | nil =>
      have := h p.1
      rw [show (p :: t) = ((p.1, p.2) :: t) from rfl, get_cons] at this
      simp [get_nil] at this
    | cons q t' =>
      have hp : Dict.get (p :: t) p.1 = some p.2 := by
        rw [show (p :: t) = ((p.1, p.2) :: t) from rfl, get_cons]; simp
      have hq : Dict.get (q :: t') q.1 = some q.2 := by
        rw [show (q :: t') = ((q.1, q.2) :: t') from rfl, get_cons]; simp
      have hkey : p.1 = q.1 := by
        by_cases h1 : p.1 < q.1
        · have := sorted_get_none_of_lt hs' h1
          rw [← h p.1, hp] at this; simp at this
        · by_cases h2 : p.1 = q.1
          · exact h2
          · have h3 := lt_of_not_lt_of_ne h1 h2
            have := sorted_get_none_of_lt hs h3
            rw [h q.1, hq] at this; simp at this
      have hval : p.2 = q.2 := by
        have := h p.1
        rw [hp, hkey, hq] at this
        simpa using this
      have hpq : p = q := Prod.ext hkey hval
      subst hpq
      have ht := ih t' (List.pairwise_cons.mp hs).2 (List.pairwise_cons.mp hs').2 (by
        intro k
        by_cases hk : k = p.1
        · subst hk; rw [sorted_tail_get_none hs, sorted_tail_get_none hs']
        · have := h k
          rw [show (p :: t) = ((p.1, p.2) :: t) from rfl, get_cons,
            show (p :: t') = ((p.1, p.2) :: t') from rfl, get_cons] at this
          simpa [hk] using this)
      rw [ht]

/-- the sorted form of a namespace depends on the finite map only -/
theorem sortDict_congr {d d' : Dict α} (h : ∀ k, Dict.get d k = Dict.get d' k) : sortDict d = sortDict d' :=
  sorted_ext _ _ (sortDict_sorted d) (sortDict_sorted d') (fun k => by rw [sortDict_get, sortDict_get, h k])

end sorting

section rendering

theorem modRef_congr {h h' : List ModObj} (hh : HeapEq h h') (store : Dict Nat) (seen : List Nat) (id : Nat) :
    modRef h store seen id = modRef h' store seen id := by
  simp only [modRef, (hh.2 id).1]

theorem renderShallow_congr {h h' : List ModObj} (hh : HeapEq h h') (store : Dict Nat) :
    renderShallow h store = renderShallow h' store := by
  funext seen v
  cases v <;> simp only [renderShallow, modRef_congr hh]

theorem renderEntries_congr (f : List Nat → Val → List Nat × String) (seen : List Nat) {d d' : Dict Val}
    (hd : DictEq d d') : renderEntries f seen d = renderEntries f seen d' := by
  simp only [renderEntries, sortDict_congr hd]

theorem renderDeep_congr {h h' : List ModObj} (hh : HeapEq h h') (store : Dict Nat) :
    renderDeep h store = renderDeep h' store := by
  funext seen v
  cases v with
  | mod id =>
    simp only [renderDeep, modRef_congr hh, renderShallow_congr hh, renderEntries_congr _ _ (hh.2 id).2]
  | int n => simp only [renderDeep, renderShallow_congr hh]
  | names l => simp only [renderDeep, renderShallow_congr hh]
  | str x => simp only [renderDeep, renderShallow_congr hh]
  | none => simp only [renderDeep, renderShallow_congr hh]
  | fn => simp only [renderDeep, renderShallow_congr hh]

theorem renderEv_congr (seen : List Nat) {e e' : Ev} (he : EvEq e e') : renderEv seen e = renderEv seen e' := by
  cases e <;> cases e' <;> simp only [EvEq] at he <;> try (simp only [renderEv])
  · next tag cur heap store tag' cur' heap' store' =>
    obtain ⟨h1, h2, h3, h4⟩ := he
    subst h1; subst h2; subst h4
    simp only [modRef_congr h3, renderDeep_congr h3, renderEntries_congr _ _ (h3.2 cur).2]
  · obtain ⟨_, h2, h3⟩ := he
    rw [h2, h3]

theorem renderTrace_congr {t t' : List Ev} (ht : TraceEq t t') : ∀ (acc : List Nat × List String),
    t.foldl renderStep acc = t'.foldl renderStep acc := by
  induction ht with
  | nil => intro acc; rfl
  | cons he _ ih =>
    intro acc
    simp only [List.foldl_cons, renderStep, renderEv_congr acc.1 he]
    exact ih _

/-- related final states (and equal script results) render to the same text -/
theorem renderRun_congr {st : St} {s : Spec.S} (h : Sim st s) (rs : List (Except Fail Nat)) :
    renderRun st.trace st.heap st.store rs = renderRun s.trace s.objs s.sysModules rs := by
  have ht := renderTrace_congr h.trace ([], [])
  simp only [renderRun, h.store, renderDeep_congr h.heap]
  rw [ht]

end rendering

/-! ### fuel: a run that did not run out of fuel is the same with more fuel -/

section mono
variable (env : Env) (imp imp' : ImpFn)
  (h : ∀ name st, (imp name st).2 ≠ .error .fuel → imp' name st = imp name st)
include h

theorem execSimple_mono (cur : Nat) (sm : Simple) (st : St) (hn : (execSimple env imp cur sm st).2 ≠ some .fuel) :
    execSimple env imp' cur sm st = execSimple env imp cur sm st := by
  have key : ∀ m, (∀ f, (imp m st).2 = .error f → f ≠ .fuel) → imp' m st = imp m st := by
    intro m hm
    apply h
    intro e
    exact hm _ e rfl
  cases sm with
  | imp m =>
    simp only [execSimple] at hn ⊢
    rw [key m (by
      intro f hf
      rcases e : imp m st with ⟨st1, r⟩
      rw [e] at hn hf
      simp only at hf
      subst hf
      simpa using hn)]
  | impAs m n =>
    simp only [execSimple] at hn ⊢
    rw [key m (by
      intro f hf
      rcases e : imp m st with ⟨st1, r⟩
      rw [e] at hn hf
      simp only at hf
      subst hf
      simpa using hn)]
  | from_ m items =>
    simp only [execSimple] at hn ⊢
    rw [key m (by
      intro f hf
      rcases e : imp m st with ⟨st1, r⟩
      rw [e] at hn hf
      simp only at hf
      subst hf
      simpa using hn)]
  | star m =>
    simp only [execSimple] at hn ⊢
    rw [key m (by
      intro f hf
      rcases e : imp m st with ⟨st1, r⟩
      rw [e] at hn hf
      simp only at hf
      subst hf
      simpa using hn)]
  | rel m a => rfl
  | bind x v => rfl
  | setAll l => rfl
  | mutate n a v => rfl
  | log tag => rfl

theorem execStmt_mono (cur : Nat) (x : Stmt) (st : St) (hn : (execStmt env imp cur x st).2 ≠ some .fuel) :
    execStmt env imp' cur x st = execStmt env imp cur x st := by
  cases x with
  | plain sm => exact execSimple_mono env imp imp' h cur sm st hn
  | tried sm =>
    simp only [execStmt] at hn ⊢
    rw [execSimple_mono env imp imp' h cur sm st (by
      intro e
      rcases e2 : execSimple env imp cur sm st with ⟨st1, r⟩
      rw [e2] at hn e
      simp only at e
      subst e
      simp at hn)]

theorem execBody_mono (cur : Nat) (body : Body) : ∀ (st : St), (execBody env imp cur body st).2 ≠ some .fuel →
    execBody env imp' cur body st = execBody env imp cur body st := by
  induction body with
  | nil => intro st _; rfl
  | cons x rest ih =>
    intro st hn
    simp only [execBody] at hn ⊢
    have hx : (execStmt env imp cur x st).2 ≠ some .fuel := by
      intro e
      rcases e2 : execStmt env imp cur x st with ⟨st1, r⟩
      rw [e2] at hn e
      simp only at e
      subst e
      simp at hn
    rw [execStmt_mono env imp imp' h cur x st hx]
    rcases e2 : execStmt env imp cur x st with ⟨st1, r⟩
    rw [e2] at hn
    cases r with
    | some f => rfl
    | none => exact ih st1 hn

theorem moduleInit_mono (name : String) (g0 : Dict Val) (code : Option Body) (st : St)
    (hn : (moduleInit env imp name g0 code st).2 ≠ .error .fuel) :
    moduleInit env imp' name g0 code st = moduleInit env imp name g0 code st := by
  rw [moduleInit_eq, moduleInit_eq] at *
  cases code with
  | none => rfl
  | some body =>
    simp only at hn ⊢
    rw [execBody_mono env imp imp' h _ body _ (by
      intro e
      rcases e2 : execBody env imp st.heap.length body ((newSt st name g0).emit (.ran st.heap.length name)) with ⟨st1, r⟩
      rw [e2] at hn e
      simp only at e
      subst e
      simp at hn)]

theorem loadModule_mono (name : String) (g0 : Dict Val) (code : Option Body) (st : St)
    (hn : (loadModule env imp name g0 code st).2 ≠ .error .fuel) :
    loadModule env imp' name g0 code st = loadModule env imp name g0 code st := by
  unfold loadModule at *
  rw [moduleInit_mono env imp imp' h name g0 code st (by
    intro e
    rcases e2 : moduleInit env imp name g0 code st with ⟨st1, r⟩
    rw [e2] at hn e
    simp only at e
    subst e
    simp at hn)]

end mono

/-- one more unit of fuel does not change an import that did not run out of fuel -/
theorem importModule_mono (env : Env) : ∀ fuel name st, (importModule env fuel name st).2 ≠ .error .fuel →
    importModule env (fuel + 1) name st = importModule env fuel name st := by
  intro fuel
  induction fuel with
  | zero =>
    intro name st hn
    unfold importModule at hn ⊢
    cases hg : st.store.get name with
    | some id => rfl
    | none => rw [hg] at hn; simp at hn
  | succ n ih =>
    intro name st hn
    unfold importModule at hn ⊢
    simp only at hn ⊢
    cases hg : st.store.get name with
    | some id => rfl
    | none =>
      rw [hg] at hn
      simp only at hn ⊢
      cases hgo : env.goMods.get name with
      | some impl =>
        rw [hgo] at hn
        exact loadModule_mono env _ _ ih _ _ _ _ hn
      | none =>
        rw [hgo] at hn
        simp only at hn ⊢
        cases hres : resolve env.lab env.dirs 0 name with
        | none => rfl
        | some p =>
          obtain ⟨file, src⟩ := p
          rw [hres] at hn
          cases src with
          | bad => rfl
          | code body => exact loadModule_mono env _ _ ih _ _ _ _ hn

/-- with at least `fuelFor env` units the import function no longer depends on the fuel -/
theorem importModule_fuel_indep (env : Env) (d : Nat) :
    importModule env (fuelFor env + d) = importModule env (fuelFor env) := by
  induction d with
  | zero => rfl
  | succ d ih =>
    rw [← ih]
    funext name st
    apply importModule_mono
    apply importModule_nofuel
    have : (uncached env st).length ≤ (candidates env).length := List.length_filter_le _ _
    show (uncached env st).length < (candidates env).length + 1 + d
    omega

/-! ### the order-parameterised machinery at the canonical order is the hand-written one -/

theorem loadO_moduleInit (env : Env) (imp : ImpFn) (name : String) (g0 : Dict Val) (code : Option Body) (st : St) :
    loadO [.register, .runCode] env imp name g0 code st = moduleInit env imp name g0 code st := by
  unfold loadO moduleInit
  cases code with
  | none => rfl
  | some body =>
    simp only [runEffects]
    generalize execBody env imp st.heap.length body _ = r
    obtain ⟨st1, f⟩ := r
    cases f <;> rfl

theorem loadO_loadModule (env : Env) (imp : ImpFn) (name : String) (g0 : Dict Val) (code : Option Body) (st : St) :
    loadO [.register, .runCode, .unregister] env imp name g0 code st = loadModule env imp name g0 code st := by
  unfold loadO loadModule moduleInit
  cases code with
  | none => rfl
  | some body =>
    simp only [runEffects]
    generalize execBody env imp st.heap.length body _ = r
    obtain ⟨st1, f⟩ := r
    cases f <;> rfl

theorem canonical_moduleInit : canonicalOrders.moduleInit = [.register, .runCode] := rfl
theorem canonical_importGo : canonicalOrders.importGo = [.register, .runCode, .unregister] := rfl
theorem canonical_importFile : canonicalOrders.importFile = [.register, .runCode, .unregister] := rfl

theorem importModuleO_canonical (env : Env) : ∀ fuel, importModuleO canonicalOrders env fuel = importModule env fuel := by
  intro fuel
  induction fuel with
  | zero => funext name st; unfold importModuleO importModule; rfl
  | succ n ih =>
    funext name st
    unfold importModuleO importModule
    simp only [ih, canonical_importGo, canonical_importFile, loadO_loadModule]

theorem runScriptsO_canonical (env : Env) (fuel : Nat) : ∀ scripts i st,
    runScriptsO canonicalOrders env fuel scripts i st = runScripts env fuel scripts i st := by
  intro scripts
  induction scripts with
  | nil => intro i st; rfl
  | cons b rest ih =>
    intro i st
    simp only [runScriptsO, runScripts, runScript, importModuleO_canonical, canonical_moduleInit, loadO_moduleInit, ih]

/-! ### the decidable side condition `undotted` gives the hypotheses of the simulation -/

theorem mem_of_get {α} (d : Dict α) (k : String) (v : α) (h : d.get k = some v) : (k, v) ∈ d := by
  induction d with
  | nil => simp [get_nil] at h
  | cons p d ih =>
    rw [show (p :: d) = ((p.1, p.2) :: d) from rfl, get_cons] at h
    by_cases hk : k = p.1
    · simp only [hk, if_true, Option.some.injEq] at h
      simp only [List.mem_cons]
      left; exact Prod.ext hk h.symm
    · simp only [hk, if_false] at h
      exact List.mem_cons_of_mem _ (ih h)

theorem resolve_mem_dir (lab : Nat → String) (dirs : List (Dict Src)) (i : Nat) (name : String) (file : String) (src : Src)
    (h : resolve lab dirs i name = some (file, src)) : ∃ d ∈ dirs, d.get name = some src := by
  induction dirs generalizing i with
  | nil => simp [resolve] at h
  | cons d ds ih =>
    simp only [resolve] at h
    cases hg : d.get name with
    | some s0 =>
      rw [hg] at h
      simp only [Option.some.injEq, Prod.mk.injEq] at h
      exact ⟨d, by simp, by rw [hg, h.2]⟩
    | none =>
      rw [hg] at h
      obtain ⟨d', hd', hg'⟩ := ih _ h
      exact ⟨d', by simp [hd'], hg'⟩

theorem bodyOK_of_undotted (b : Body) (h : undottedBody b = true) : BodyOK b := by
  intro x hx m hm
  have := List.all_eq_true.mp h x hx
  rw [hm] at this
  simpa [Undot] using this

theorem envOK_of_undotted (env : Env) (scripts : List Body) (h : undotted env scripts = true) :
    EnvOK env ∧ ∀ b ∈ scripts, BodyOK b := by
  simp only [undotted, Bool.and_eq_true] at h
  obtain ⟨⟨h1, h2⟩, h3⟩ := h
  refine ⟨⟨?_, ?_⟩, ?_⟩
  · intro name impl b hg hb
    have := List.all_eq_true.mp h2 (name, impl) (mem_of_get _ _ _ hg)
    simp only [hb] at this
    exact bodyOK_of_undotted b this
  · intro name file b hres
    obtain ⟨d, hd, hg⟩ := resolve_mem_dir _ _ _ _ _ _ hres
    have := List.all_eq_true.mp (List.all_eq_true.mp h3 d hd) (name, .code b) (mem_of_get _ _ _ hg)
    exact bodyOK_of_undotted b this
  · intro b hb
    exact bodyOK_of_undotted b (List.all_eq_true.mp h1 b hb)

/-- a name `__all__` does not list keeps its value, also when the loop stops at a missing name -/
theorem starAll_untouched (src : Dict Val) (cur : Nat) (l : List String) (st : St) (k : String) (hk : k ∉ l) :
    ((starAll src cur l st).1.globalsOf cur).get k = (st.globalsOf cur).get k := by
  induction l generalizing st with
  | nil => rfl
  | cons x rest ih =>
    simp only [List.mem_cons, not_or] at hk
    simp only [starAll]
    split
    · rfl
    · rw [ih _ hk.2, globalsOf_setGlobal]
      split
      · rw [Dict.get_set]; simp [hk.1]
      · rfl

end GPy.C19
