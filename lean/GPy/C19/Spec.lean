/-
C19 specification: Python's import semantics (language reference §5 "The import system",
§7.11 "The import statement"), restricted to top-level (undotted) modules:

* `sys.modules` is consulted first; a hit returns the cached object and runs nothing;
* otherwise a finder locates the module – built-in (here: Go-implemented) modules before the
  path-based finder, which takes the first `sys.path` entry that has the file;
  nothing found ⇒ ImportError;
* the new module object is put into `sys.modules` **before** its code is executed (this is what
  makes import cycles terminate and see the partially initialised module);
* if the code raises, the module is removed from `sys.modules` again and the exception propagates;
* `import m [as n]` binds the module object; `from m import a [as b]` binds `getattr(m, a)`,
  ImportError if there is no such attribute; `from m import *` binds exactly the names in
  `m.__all__` or, without it, every name of `m`'s namespace that does not begin with `_`
  (AttributeError for a name `__all__` lists but the module lacks).

The reference interpreter below is written from that text with its own namespace representation
(sorted association lists, declarative star-import); it shares only the syntax (`Stmt`, `Val`) and
the event type with the model.  The property-level predicates the theorems use follow.
-/
import GPy.C19.Model
namespace GPy.C19

namespace Spec

/-- namespace = finite map kept sorted by key (order never observable) -/
def nsSet : Dict Val → String → Val → Dict Val
  | [], k, v => [(k, v)]
  | (k', v') :: d, k, v =>
    if k = k' then (k, v) :: d
    else if k < k' then (k, v) :: (k', v') :: d
    else (k', v') :: nsSet d k v

def nsOfList (l : Dict Val) : Dict Val := l.foldl (fun d p => nsSet d p.1 p.2) []

structure S where
  objs : List ModObj := []          -- module objects, by identity
  sysModules : Dict Nat := []
  trace : List Ev := []

def S.ns (s : S) (id : Nat) : Dict Val := (s.objs.getD id default).g
def S.setattr (s : S) (id : Nat) (k : String) (v : Val) : S :=
  { s with objs := updAt s.objs id (fun m => { m with g := nsSet m.g k v }) }
def S.emit (s : S) (e : Ev) : S := { s with trace := s.trace ++ [e] }

abbrev Imp := String → S → S × Except Fail Nat

/-- the names `from m import *` binds -/
def starNames (ns : Dict Val) : Except Err (List String) :=
  match ns.get "__all__" with
  | some (.names l) => .ok l
  | some _ => .error .typeError
  | none => .ok ((ns.keys.filter (fun k => !k.startsWith "_")))

/-- bind `pairs` (source attribute, target name) one after the other; `missing` is raised for an absent attribute -/
def bindAll (missing : Err) (srcNs : Dict Val) (cur : Nat) : List (String × String) → S → S × Option Fail
  | [], s => (s, .none)
  | (a, b) :: rest, s =>
    match srcNs.get a with
    | none => (s, some (.raise missing))
    | some v => bindAll missing srcNs cur rest (s.setattr cur b v)

/-- `from m import a as b, c as d`: `b = getattr(m, a)`, then `d = getattr(m, c)` – every attribute is
read when its turn comes (so inside `m` itself, `from m import x as y, y as z` binds `z` to `x`'s value) -/
def bindFrom (src : Nat) (cur : Nat) : List (String × String) → S → S × Option Fail
  | [], s => (s, .none)
  | (a, b) :: rest, s =>
    match (s.ns src).get a with
    | none => (s, some (.raise .importError))
    | some v => bindFrom src cur rest (s.setattr cur b v)

def stmt (imp : Imp) (cur : Nat) (st : Simple) (s : S) : S × Option Fail :=
  let withMod (m : String) (k : Nat → S → S × Option Fail) : S × Option Fail :=
    match imp m s with
    | (s, .error f) => (s, some f)
    | (s, .ok id) => k id s
  match st with
  | .imp m => withMod m fun id s => (s.setattr cur m (.mod id), .none)
  | .impAs m n => withMod m fun id s => (s.setattr cur n (.mod id), .none)
  | .from_ m items => withMod m fun id s => bindFrom id cur items s
  | .star m => withMod m fun id s =>
      match starNames (s.ns id) with
      | .error e => (s, some (.raise e))
      | .ok names => bindAll .attributeError (s.ns id) cur (names.map fun k => (k, k)) s
  -- a relative import in a module that is not part of a package (3.4: SystemError "Parent module '' not
  -- loaded, cannot perform relative import"); nothing is looked up or loaded
  | .rel _ _ => (s, some (.raise .systemError))
  | .bind x v => (s.setattr cur x (.int v), .none)
  | .setAll l => (s.setattr cur "__all__" (.names l), .none)
  | .mutate n a v =>
    match (s.ns cur).get n with
    | none => (s, some (.raise .nameError))
    | some (.mod id) => (s.setattr id a (.int v), .none)
    | some _ => (s, some (.raise .attributeError))
  | .log tag => (s.emit (.obs tag cur s.objs s.sysModules), .none)

def block (imp : Imp) (cur : Nat) : Body → S → S × Option Fail
  | [], s => (s, .none)
  | .plain st :: rest, s =>
    match stmt imp cur st s with
    | (s, .none) => block imp cur rest s
    | r => r
  | .tried st :: rest, s =>
    match stmt imp cur st s with
    | (s, .none) => block imp cur rest s
    | (s, some (.raise e)) => block imp cur rest (s.emit (.caught cur (s.objs.getD cur default).name e))
    | r => r

/-- attributes a fresh module object has -/
def freshNs (name : String) (file : Option String) (extra : Dict Val) (methods : List String) : Dict Val :=
  nsOfList (extra ++ methods.map (fun m => (m, Val.fn)) ++
    [("__name__", .str name), ("__doc__", .str ""), ("__package__", .none)] ++
    (match file with | some f => [("__file__", Val.str f)] | none => []))

/-- create the module, cache it, execute its code in it; `uncache` says whether a failure removes it again -/
def load (imp : Imp) (name : String) (ns : Dict Val) (code : Option Body) (uncache : Bool) (s : S) : S × Except Fail Nat :=
  let id := s.objs.length
  let s : S := { s with objs := s.objs ++ [({ name := name, g := ns } : ModObj)], sysModules := s.sysModules.set name id }
  let s := s.emit (.created id name)
  match code with
  | .none => (s, .ok id)
  | some body =>
    match block imp id body (s.emit (.ran id name)) with
    | (s, .none) => (s.emit (.finished id name), .ok id)
    | (s, some f) =>
      (if uncache then ({ s with sysModules := s.sysModules.erase name } : S).emit (.failed name) else s, .error f)

/-- path-based finder -/
def findPath (lab : Nat → String) : List (Dict Src) → Nat → String → Option (String × Src)
  | [], _, _ => .none
  | d :: ds, i, name =>
    match d.get name with
    | some src => some (s!"{lab i}/{name}.py", src)
    | none => findPath lab ds (i + 1) name

/-- `p` of a dotted module name `p.q…` -/
def dottedHead (name : String) : Option String :=
  let l := name.toList
  if l.contains '.' then some (String.ofList (l.takeWhile (· != '.'))) else .none

/-- import of an undotted name; `nested` = the import function the module's code uses (`none`: out of fuel) -/
def importPlain (env : Env) (nested : Option Imp) (name : String) (s : S) : S × Except Fail Nat :=
  match s.sysModules.get name with
  | some id => (s.emit (.hit id name), .ok id)
  | none =>
    match nested with
    | .none => (s, .error .fuel)
    | some imp =>
      match env.goMods.get name with                       -- built-in finder first
      | some impl => load imp name (freshNs name .none impl.globals impl.methods) impl.body true s
      | none =>
        match findPath env.lab env.dirs 0 name with
        | none => (s, .error (.raise .importError))
        | some (_, .bad) => (s, .error (.raise .syntaxError))
        | some (file, .code body) => load imp name (freshNs name (some file) [] []) (some body) true s

/-- the modules of this fragment are plain files or built-ins, never packages: after the parent `p`
of `p.q` has been imported, the import fails with ImportError ("'p' is not a package") -/
def notPackage : Option String → S × Except Fail Nat → S × Except Fail Nat
  | some _, (s, .ok _) => (s, .error (.raise .importError))
  | _, r => r

/-- `import p.q` imports the parent `p` first (its code runs, it stays in `sys.modules`) -/
def importModule (env : Env) : Nat → Imp
  | 0, name, s => notPackage (dottedHead name) (importPlain env .none ((dottedHead name).getD name) s)
  | fuel + 1, name, s =>
    notPackage (dottedHead name) (importPlain env (some (importModule env fuel)) ((dottedHead name).getD name) s)

def runScripts (env : Env) (fuel : Nat) : List Body → Nat → S → S × List (Except Fail Nat)
  | [], _, s => (s, [])
  | b :: rest, i, s =>
    let (s, r) := load (importModule env fuel) "__main__" (freshNs "__main__" (some s!"s/s{i}.py") [] []) (some b) false s
    let (s, rs) := runScripts env fuel rest (i + 1) s
    (s, r :: rs)

end Spec

/-! ### Known finding C19-K01: dotted module names -/

/-- the module an import statement names -/
def Simple.target : Simple → Option String
  | .imp m => some m | .impAs m _ => some m | .from_ m _ => some m | .star m => some m | _ => .none

def Stmt.simple : Stmt → Simple
  | .plain s => s | .tried s => s

def undottedBody (b : Body) : Bool :=
  b.all fun st => match st.simple.target with | some m => (Spec.dottedHead m).isNone | none => true

/-- no import statement of any module body, Go module code or script names a dotted module -/
def undotted (env : Env) (scripts : List Body) : Bool :=
  scripts.all undottedBody &&
  env.goMods.all (fun p => match p.2.body with | some b => undottedBody b | none => true) &&
  env.dirs.all (fun d => d.all fun p => match p.2 with | .code b => undottedBody b | .bad => true)

/-- **C19-K01**: some import statement of the case names `p.q`.  gpython has no packages: it looks
for the file `p/q.py` and never imports `p`; Python imports `p` first. -/
def kfDotted (env : Env) (scripts : List Body) : Bool := !undotted env scripts

/-! ### Property-level predicates over traces and namespaces -/

/-- how often the code of module *name* `m` started to run -/
def ranCount (m : String) (t : List Ev) : Nat :=
  (t.filter fun e => match e with | .ran _ n => n = m | _ => false).length

/-- how often the code of module *object* `id` started to run -/
def ranCountId (id : Nat) (t : List Ev) : Nat :=
  (t.filter fun e => match e with | .ran i _ => i = id | _ => false).length

/-- how often a run of module `m` ended with an exception -/
def failedCount (m : String) (t : List Ev) : Nat :=
  (t.filter fun e => match e with | .failed n => n = m | _ => false).length

/-- the names `from m import *` must bind, given `m`'s namespace (Python's rule) -/
def starSpecNames (ns : Dict Val) : List String :=
  match ns.get "__all__" with
  | some (.names l) => l
  | _ => ns.keys.filter (fun k => !k.startsWith "_")

/-! ### Canonical rendering of a run (shared by model, spec and – re-implemented in Go – the harness)

Module objects are numbered in order of first appearance in the text, so object identity is
observable without addresses; `=`/`!` says whether the object is the one the store holds under
its name.  Namespaces are printed sorted by key; `__name__`, `__doc__`, `__package__` are hidden. -/

def hidden (k : String) : Bool := k == "__name__" || k == "__doc__" || k == "__package__"

def insSorted {α} (p : String × α) : List (String × α) → List (String × α)
  | [] => [p]
  | q :: l => if p.1 < q.1 then p :: q :: l else if p.1 = q.1 then q :: l else q :: insSorted p l

def sortDict {α} (d : Dict α) : List (String × α) := d.foldl (fun acc p => insSorted p acc) []

def seqOf (seen : List Nat) (id : Nat) : List Nat × Nat :=
  match seen.idxOf? id with
  | some i => (seen, i)
  | none => (seen ++ [id], seen.length)

def modRef (heap : List ModObj) (store : Dict Nat) (seen : List Nat) (id : Nat) : List Nat × String :=
  let name := (heap.getD id default).name
  let flag := if store.get name == some id then "=" else "!"
  let (seen, n) := seqOf seen id
  (seen, s!"M{n}:{name}:{flag}")

def renderShallow (heap : List ModObj) (store : Dict Nat) (seen : List Nat) : Val → List Nat × String
  | .int n => (seen, toString n)
  | .mod id => modRef heap store seen id
  | .names l => (seen, "[" ++ ",".intercalate l ++ "]")
  | .str s => (seen, "'" ++ s ++ "'")
  | .none => (seen, "None")
  | .fn => (seen, "fn")

def renderEntries (f : List Nat → Val → List Nat × String) (seen : List Nat) (d : Dict Val) : List Nat × String :=
  let es := (sortDict d).filter (fun p => !hidden p.1)
  let (seen, parts) := es.foldl (fun (acc : List Nat × List String) p =>
    let (seen, s) := f acc.1 p.2
    (seen, acc.2 ++ [p.1 ++ "=" ++ s])) (seen, [])
  (seen, "{" ++ ",".intercalate parts ++ "}")

def renderDeep (heap : List ModObj) (store : Dict Nat) (seen : List Nat) (v : Val) : List Nat × String :=
  match v with
  | .mod id =>
    let (seen, r) := modRef heap store seen id
    let (seen, inner) := renderEntries (renderShallow heap store) seen (heap.getD id default).g
    (seen, r ++ inner)
  | v => renderShallow heap store seen v

def renderEv (seen : List Nat) : Ev → List Nat × Option String
  | .obs tag cur heap store =>
    let (seen, r) := modRef heap store seen cur
    let (seen, body) := renderEntries (renderDeep heap store) seen (heap.getD cur default).g
    (seen, some s!"L{tag}@{r}{body}")
  | .caught _ name e => (seen, some s!"C@{name}:{e.py}")
  | _ => (seen, .none)

def renderRes : Except Fail Nat → String
  | .ok _ => "ok"
  | .error (.raise e) => "E:" ++ e.py
  | .error .fuel => "FUEL"

def renderStep (acc : List Nat × List String) (e : Ev) : List Nat × List String :=
  match renderEv acc.1 e with
  | (seen, some s) => (seen, acc.2 ++ [s])
  | (seen, .none) => (seen, acc.2)

/-- the whole observable of a case: the log, the outcome of every script, the final store -/
def renderRun (trace : List Ev) (heap : List ModObj) (store : Dict Nat) (rs : List (Except Fail Nat)) : String :=
  let (seen, parts) := trace.foldl renderStep ([], [])
  let storeVals : Dict Val := store.map (fun p => (p.1, Val.mod p.2))
  let (_, st) := renderEntries (renderDeep heap store) seen storeVals
  ";".intercalate parts ++ ";R:" ++ ",".intercalate (rs.map renderRes) ++ ";S" ++ st

end GPy.C19
