/-
C20 case generator: interactive sessions (programs of the fragment of Lang.lean rendered into
physical lines in several ways) and oracle probes.  For every session the line prints
  input = `S <escaped lines>`, model V/R (folding `step` over the fed lines with the table oracle
  and `modelRun`), spec V (`specTrace` with `specRun`), tags;
for every text the REPL may compile for a generated statement it prints an `O <text>` case whose
model V is the table oracle's class and whose spec V is what the oracle contract requires.
Core Lean only.
-/
import GPy.C20.Spec
import GPy.C20.Pipe
namespace GPy.C20
open GPy.C06 (Tok)

/-! ## rendering -/

def BinOp.sym : BinOp → String
  | .add => "+" | .sub => "-" | .mul => "*" | .floordiv => "//" | .mod => "%"
def CmpOp.sym : CmpOp → String
  | .lt => "<" | .le => "<=" | .eq => "==" | .ne => "!=" | .gt => ">" | .ge => ">="

def quoteStr (s : String) : String := "'" ++ s.replace "\n" "\\n" ++ "'"

def Expr.render : Expr → String
  | .none => "None"
  | .int i => if i < 0 then s!"({i})" else toString i
  | .bool b => if b then "True" else "False"
  | .str s => quoteStr s
  | .name x => x
  | .bin op a b => s!"({a.render} {op.sym} {b.render})"
  | .cmp op a b => s!"({a.render} {op.sym} {b.render})"
  | .not a => s!"(not {a.render})"
  | .call1 f a => s!"{f}({a.render})"
  | .call0 f => s!"{f}()"

def pad (n : Nat) : String := String.mk (List.replicate (4 * n) ' ')

def renderSimple : Stmt → String
  | .expr e => e.render
  | .assign x e => s!"{x} = {e.render}"
  | .aug x op e => s!"{x} {op.sym}= {e.render}"
  | .pass => "pass"
  | .del x => s!"del {x}"
  | .ret e => s!"return {e.render}"
  | _ => "pass"

mutual
def renderS (ind : Nat) : Stmt → List String
  | .ifs c t e =>
    [pad ind ++ s!"if {c.render}:"] ++ renderL (ind + 1) t ++
      (match e with | [] => [] | _ => [pad ind ++ "else:"] ++ renderL (ind + 1) e)
  | .whiles c b => [pad ind ++ s!"while {c.render}:"] ++ renderL (ind + 1) b
  | .forRange x n b => [pad ind ++ s!"for {x} in range({n.render}):"] ++ renderL (ind + 1) b
  | .defn f ps b => [pad ind ++ s!"def {f}({", ".intercalate ps}):"] ++ renderL (ind + 1) b
  | s => [pad ind ++ renderSimple s]
def renderL (ind : Nat) : List Stmt → List String
  | [] => []
  | s :: ss => renderS ind s ++ renderL ind ss
end

/-! ## generated items -/

structure GItem where
  lines : List String
  /-- `none` = a skipped line (blank / whitespace / comment) -/
  res : Option (Res (List Stmt))
  /-- message of the "more input needed" error for the proper prefixes -/
  incMsg : String := eofMsg
  /-- bug-for-bug oracle entries of known findings (override the contract entries) -/
  extra : List (String × CResult (List Stmt)) := []
  kf : Option String := none
  feats : List String := []
deriving Inhabited

def GItem.toItem (g : GItem) : Item (List Stmt) :=
  match g.res with
  | some r => .stmt { lines := g.lines, res := r }
  | none => .skip (g.lines.headD "")

def synErr (msg line : String) : SynErr := { msg := msg, line := line }

/-- prefixes `done ++ [""]` for every empty line inside the statement -/
def blankPrefixes : List String → List String → List (List String)
  | _, [] => []
  | done, l :: rest =>
    (if l == "" && !done.isEmpty then [done ++ [""]] else []) ++ blankPrefixes (done ++ [l]) rest

/-- the texts the contract constrains for one item, with the class it requires -/
def contractEntries (g : GItem) : List (String × CResult (List Stmt)) :=
  let inc : CResult (List Stmt) := .error (synErr g.incMsg "")
  match g.res with
  | none => (match g.lines with | [l] => if l == "" then [] else [(text [l], .error (synErr eofMsg ""))] | _ => [])
  | some r =>
    let it : Entry (List Stmt) := { lines := g.lines, res := r }
    (match g.lines with
     | l :: _ :: _ => [(text [l], inc)]
     | _ => []) ++
    (blankPrefixes [] g.lines).map (fun p => (text p, inc)) ++
    [(text it.fed, r.toC)]

/-- is the item outside the pipeline model?  (statements Python rejects: what the real pipeline answers for their
texts stays an ORACLE table; everything else – valid statements, their partial texts, skipped lines – is answered
by `compileM`) -/
def GItem.isOracle (g : GItem) : Bool :=
  match g.res with
  | some (.synErr _) => true
  | _ => false

/-- table entry: text, answer, `true` = oracle entry (used as is), `false` = a text of the modelled part -/
abbrev TabEntry := String × CResult (List Stmt) × Bool

def tableOf (items : List GItem) : List TabEntry :=
  items.flatMap (fun g =>
    g.extra.map (fun e => (e.1, e.2, match e.2 with | .error er => !needsMoreInput er | .ok _ => false)) ++
    (contractEntries g).map (fun e => (e.1, e.2, g.isOracle)))

/-- the parser of the generated sessions: it returns the tree of a statement exactly on the token sequences of the
complete valid statements of the session (and of the bug-for-bug entries of known findings), waits on their proper
prefixes and rejects everything else -/
structure Keys where
  keys : List (List Tok × List Stmt)

def keysOf (tab : List TabEntry) : Keys :=
  ⟨tab.filterMap fun e => match e.2.1, e.2.2 with
    | .ok body, false => some ((toksOf e.1).map Prod.fst, body)
    | _, _ => none⟩

def Keys.grammar (k : Keys) : Grammar (List Stmt) where
  status := fun T =>
    match k.keys.find? (fun p => p.1 == T) with
    | some p => .done (.ok p.2)
    | none => if T.length ≤ 1 || k.keys.any (fun p => T.isPrefixOf p.1) then .more else .dead none

structure Tab where
  entries : List TabEntry
  keys : Keys

def mkTab (items : List GItem) : Tab := let es := tableOf items; ⟨es, keysOf es⟩

/-- `py.Compile(t, single)` of the generated sessions: oracle entries as recorded, everything else by the pipeline model -/
def tableCompile (tab : Tab) (t : String) : CResult (List Stmt) :=
  match tab.entries.find? (fun p => p.1 == t && p.2.2) with
  | some p => p.2.1
  | none => compileM tab.keys.grammar t

def worldM (tab : Tab) : World :=
  { Code := List Stmt, NS := NS, compile := tableCompile tab, run := modelRun }
def worldS (tab : Tab) : World :=
  { Code := List Stmt, NS := NS, compile := tableCompile tab, run := specRun }

/-! ## canonical text of observations (must agree with harness/c20.go) -/

def insertSorted (p : String × String) : List (String × String) → List (String × String)
  | [] => [p]
  | q :: qs => if p.1 < q.1 then p :: q :: qs else q :: insertSorted p qs

def nsText (ns : NS) (dropUnderscore : Bool := false) : String :=
  let vs := ns.vars.filter (fun p => !(dropUnderscore && p.1 == "_"))
  let sorted := vs.foldl (fun acc p => insertSorted (p.1, reprVal ns.funs p.2) acc) []
  "{" ++ ",".intercalate (sorted.map fun p => p.1 ++ "=" ++ p.2) ++ "}"

def outText : Out → String
  | .echo t => "o:" ++ t
  | .raised c => "r:" ++ c

def actText : Action → List String
  | .setPrompt _ => []
  | .print _ => ["c:SyntaxError"]
  | .exec _ outs => outs.map outText

def promptText (p : String) : String :=
  if p == NormalPrompt then ">" else if p == ContinuationPrompt then "." else "?" ++ p

def obsText (o : LineObs) (ns prev : String) : String :=
  promptText o.prompt ++ " [" ++ " ".intercalate (o.acts.flatMap actText) ++ "] " ++ (if ns == prev then "=" else ns)

/-- model: fold `step` over the fed lines, printing per line the observation, the namespace digest and (R) the state -/
def modelSession (W : World) (toNS : W.NS → NS) (s : ReplState W.NS) (lines : List String) : List String × List String × W.NS := Id.run do
  let mut s := s
  let mut vs : Array String := #[]
  let mut rs : Array String := #[]
  let mut prev := ""
  for l in lines do
    let r := stepObs W s l
    s := r.1
    let ns := nsText (toNS s.ns)
    vs := vs.push (obsText r.2 ns prev)
    prev := ns
    rs := rs.push (s!"{s.continuation}/{s.previous.utf8ByteSize}")
  return (vs.toList, rs.toList, s.ns)

/-- spec: per item, `specItem`; the namespace changes only at the last fed line of a statement -/
def specSession (W : World) (toNS : W.NS → NS) (ns0 : W.NS) (prog : List (Item W.Code)) : List String × W.NS := Id.run do
  let mut ns := ns0
  let mut vs : Array String := #[]
  let mut prev := ""
  for it in prog do
    let r := specItem W ns it
    let n := r.2.length
    let mut i := 0
    for o in r.2 do
      i := i + 1
      let cur := nsText (toNS (if i == n then r.1 else ns))
      vs := vs.push (obsText o cur prev)
      prev := cur
    ns := r.1
  return (vs.toList, ns)

/-- the statements executed in one piece each (`P:`) and the program as a file (`F:`) -/
def pieceText (run : List Stmt → NS → NS × List Out) (items : List GItem) : String := Id.run do
  let mut ns : NS := {}
  let mut outs : Array String := #[]
  for g in items do
    match g.res with
    | some (.code body) =>
      let r := run body ns
      ns := r.1
      outs := outs ++ (r.2.map outText).toArray
    | some (.synErr _) => outs := outs.push "c:SyntaxError"
    | none => pure ()
  return "P: [" ++ " ".intercalate outs.toList ++ "] " ++ nsText ns

def fileText (items : List GItem) : String := Id.run do
  let mut ns : NS := {}
  for g in items do
    match g.res with
    | some (.code body) =>
      let r := runBody fileHook fuelDefault body ns
      if r.2.any (fun o => match o with | .raised _ => true | _ => false) then return "F: E"
      ns := r.1
    | some (.synErr _) => return "F: E"
    | none => pure ()
  return "F: " ++ nsText ns true

def escLine (l : String) : String := (l.replace "\\" "\\\\").replace "\t" "\\t" ++ "\\n"

def sessionCase (items : List GItem) (extraTags : List String := []) : Case :=
  let tab := mkTab items
  let prog := items.map GItem.toItem
  let lines := feed prog
  let (mv, mr, _) := modelSession (worldM tab) id { ns := ({} : NS) } lines
  let (sv, _) := specSession (worldS tab) id ({} : NS) prog
  let input := "S " ++ String.join (items.map fun g => String.join (g.toItem.fed.map escLine) ++ "\\s")
  let feats := (items.flatMap (·.feats)).eraseDups
  let nt := items.any (fun g => g.lines.length > 1 || (match g.res with | some (.synErr _) => true | _ => false))
            || mv.any (fun (s : String) => (s.splitOn "r:").length > 1)
  let kfs := (items.filterMap (·.kf)).eraseDups
  { input := input
    modelV := "; ".intercalate (mv ++ [pieceText modelRun items, fileText items])
    modelR := " ".intercalate mr
    specV := "; ".intercalate (sv ++ [pieceText specRun items, fileText items])
    tags := (if nt then ["nt"] else []) ++ kfs.map ("kf=" ++ ·) ++ feats.map ("f:" ++ ·) ++ extraTags }

def classText {Code} : CResult Code → String
  | .ok _ => "ok"
  | .error e => if needsMoreInput e then "inc" else "syn"

/-- oracle probes of one item: model = table (bug-for-bug), spec = contract -/
def oracleCases (g : GItem) : List Case :=
  let tab := mkTab [g]
  (contractEntries g).map fun (t, want) =>
    let ls := (t.splitOn "\n").dropLast
    { input := "O " ++ String.join (ls.map escLine)
      modelV := classText (tableCompile tab t)
      specV := classText want
      tags := ["nt", "f:oracle"] ++ (if classText (tableCompile tab t) != classText want then (g.kf.map ("kf=" ++ ·)).toList else []) }

/-! ## random programs -/

abbrev G := StateM Rng

def rnd (n : Nat) : G Nat := fun r => let (r', x) := r.nat n; (x, r')
def oneOf {α} [Inhabited α] (xs : List α) : G α := do let i ← rnd xs.length; return xs.getD i default
def chance (num den : Nat) : G Bool := do let i ← rnd den; return i < num

def intVars : List String := ["a", "b", "c"]
def strVars : List String := ["s", "t"]

/-- generator configuration: the int-valued names in scope; `dirty` = deliberately erroneous pieces allowed -/
structure Cfg where
  vars : List String
  dirty : Bool
def Cfg.add (c : Cfg) (x : String) : Cfg := { c with vars := c.vars ++ [x] }

def genLit : G Expr := do return .int ((← rnd 12) : Nat)

/-- an int-valued expression (may raise NameError on `z`, ZeroDivisionError, TypeError on purpose) -/
def genInt (calls : Bool) : Nat → Cfg → G Expr
  | 0, vars => do
    match ← rnd 5 with
    | 0 | 1 => genLit
    | 2 => return .int (-((← rnd 5 : Nat) : Int) - 1)
    | _ => return .name (← oneOf vars.vars)
  | d + 1, vars => do
    match ← rnd 12 with
    | 0 | 1 | 2 | 3 => genInt calls 0 vars
    | 4 | 5 | 6 | 7 => return .bin (← oneOf [.add, .sub, .floordiv, .mod, .add]) (← genInt calls d vars) (← genInt calls d vars)
    | 8 => return .bin .mul (← genInt calls d vars) (← genLit)        -- products only with literals: sizes stay linear
    | 9 => if calls then return .call1 "f" (← genInt calls d vars) else genInt calls 0 vars
    | 10 => if vars.dirty && (← chance 1 3) then return .name "z" else genInt calls 0 vars                 -- NameError
    | _ => if vars.dirty && (← chance 1 4) then return .bin .add (← genInt calls 0 vars) (.str "q") else genInt calls 0 vars   -- TypeError

def phrases : List String := ["ab", "unexpected EOF while parsing", "x y", "# no comment", "EOF while scanning triple-quoted string literal", ""]

def genStr : Nat → G Expr
  | 0 => do
    if ← chance 1 2 then return .str (← oneOf phrases) else return .name (← oneOf strVars)
  | d + 1 => do
    match ← rnd 4 with
    | 0 => return .bin .add (← genStr d) (.str (← oneOf phrases))      -- sizes stay linear
    | 1 => return .bin .mul (.str (← oneOf phrases)) (.int ((← rnd 3) : Nat))
    | _ => genStr 0

def genBool (vars : Cfg) : G Expr := do
  match ← rnd 5 with
  | 0 => return .bool (← chance 1 2)
  | 1 => return .not (← genInt true 1 vars)
  | 2 => return .cmp .eq (← genStr 0) (← genStr 0)
  | _ => return .cmp (← oneOf [.lt, .le, .eq, .ne, .gt, .ge]) (← genInt true 1 vars) (← genInt true 1 vars)

/-- a simple statement of the interactive top level (or of a block at nest 0) -/
def genSimple (vars : Cfg) : G Stmt := do
  match ← rnd 16 with
  | 0 | 1 | 2 => return .assign (← oneOf intVars) (← genInt true 2 vars)
  | 3 => return .assign (← oneOf strVars) (← genStr 1)
  | 4 => return .assign "p" (← genBool vars)
  | 5 => return .assign "q" .none
  | 6 => return .aug (← oneOf intVars) (← oneOf [.add, .sub, .mul]) (← genLit)
  | 7 | 8 => return .expr (← genInt true 2 vars)
  | 9 => return .expr (← genStr 1)
  | 10 => return .expr (← genBool vars)
  | 11 => return .expr (← oneOf [.none, .name "q", .call0 "g", .call0 "g", .name "p"])
  | 12 => return .expr (.name (← oneOf (intVars ++ strVars)))
  | 13 => return .pass
  | 14 => if vars.dirty then (if (← chance 1 3) then return .del (← oneOf intVars) else return .expr (.name "_")) else return .expr (← genStr 1)
  | _ => return .expr (.call1 "f" (← genInt true 1 vars))

def genBlock : Nat → Cfg → G (List Stmt)
  | 0, vars => do
    let n ← rnd 2
    let mut out := []
    for _ in [0:n + 1] do out := out ++ [← genSimple vars]
    return out
  | d + 1, vars => do
    let n ← rnd 3
    let mut out := []
    for _ in [0:n + 1] do
      match ← rnd 8 with
      | 0 =>
        let e ← genBlock d vars
        let useElse ← chance 1 2
        out := out ++ [Stmt.ifs (← genBool vars) (← genBlock d vars) (if useElse then e else [])]
      | 1 => out := out ++ [Stmt.forRange (← oneOf ["i", "j"]) (.int ((← rnd 4) : Nat)) (← genBlock d (vars.add "i"))]
      | _ => out := out ++ [← genSimple vars]
    return out

/-- function bodies: locals u (parameter) and w -/
def genFunBody : G (List Stmt) := do
  let lv : Cfg := { vars := ["u", "u", "a"], dirty := false }
  let mut out : List Stmt := []
  if ← chance 1 2 then out := out ++ [.expr (← genInt false 1 lv)]            -- NOT echoed (nest 1)
  if ← chance 1 2 then out := out ++ [.assign "w" (← genInt false 1 lv), .ret (.bin .add (.name "w") (← genInt false 0 lv))]
  else if ← chance 2 3 then out := out ++ [.ret (← genInt false 2 lv)]
  else out := out ++ [.ifs (.cmp .gt (.name "u") (.int 0)) [.ret (← genInt false 1 lv)] []]   -- may return None
  return out

def genCompound : Nat → Cfg → G Stmt
  | fuel, vars => do
  match ← rnd 8 with
  | 0 | 1 =>
    let e ← genBlock 1 vars
    let useElse ← chance 2 3
    return .ifs (← genBool vars) (← genBlock 1 vars) (if useElse then e else [])
  | 2 | 3 => return .forRange (← oneOf ["i", "j"]) (← oneOf [.int 0, .int 1, .int 2, .int 3, .name "k"]) (← genBlock 1 (vars.add "i"))
  | 4 => return .whiles (.cmp .gt (.name "k") (.int 0)) ((← genBlock 0 vars) ++ [.aug "k" .sub (.int 1)])
  | 5 => return .defn "f" ["u"] (← genFunBody)
  | 6 =>
    let r ← oneOf [Expr.none, .int 7]
    return .defn "g" [] (if (← chance 1 2) then [.expr (.int 1), .pass] else [.ret r])
  | _ =>
    match fuel with
    | 0 => return .ifs (← genBool vars) [.pass] []
    | fuel + 1 => return .ifs (← genBool vars) [← genCompound fuel vars] []

def comments : List String := ["# note", "#", "  # unexpected EOF while parsing", "# a = )", "    # indented"]

/-- sprinkle comment lines into the lines of a block (never a blank line: that would end the statement) -/
def addComments (ls : List String) : G (List String × Bool) := do
  let mut out := []
  let mut any := false
  let mut first := true
  for l in ls do
    if !first && (← chance 1 8) then
      out := out ++ [← oneOf comments]
      any := true
    first := false
    if (← chance 1 10) && !(l.endsWith ":") then
      out := out ++ [l ++ "  # trailing"]
      any := true
    else out := out ++ [l]
  return (out, any)

def codeItem (body : List Stmt) (lines : List String) (feats : List String) : GItem :=
  { lines := lines, res := some (.code body), feats := feats }

/-- one program item -/
def genItem (vars : Cfg) : G GItem := do
  let pick ← rnd 56
  let pick := if !vars.dirty && pick ≥ 33 && pick ≤ 38 then pick - 20 else pick
  match pick with
  -- simple one-line statements (sometimes two joined by `;`)
  | 0 | 1 | 2 | 3 | 4 | 5 | 6 | 7 | 8 | 9 | 10 | 11 => do
    let s ← genSimple vars
    if ← chance 1 6 then
      let s2 ← genSimple vars
      return codeItem [s, s2] [renderSimple s ++ "; " ++ renderSimple s2] ["semicolon"]
    let trail ← chance 1 8
    return codeItem [s] [renderSimple s ++ (if trail then "  # unexpected EOF while parsing" else "")] (["simple"] ++ (if trail then ["comment"] else []))
  | 12 => do
    let v ← rnd 4
    return codeItem [.assign "k" (.int (v : Nat))] [s!"k = {v}"] ["simple"]
  -- compound statements over several lines
  | 13 | 14 | 15 | 16 | 17 | 18 | 19 | 20 => do
    let s ← genCompound 2 vars
    let (ls, c) ← addComments (renderS 0 s)
    let nested := ls.any (fun l => l.startsWith "        ")
    return codeItem [s] ls (["compound"] ++ (if c then ["comment"] else []) ++ (if nested then ["nested"] else []))
  -- a compound statement on one line (inline suite): complete at once
  | 21 => do
    let s ← genSimple vars
    let c ← genBool vars
    return codeItem [.ifs c [s] []] [s!"if {c.render}: {renderSimple s}"] ["inline-compound"]
  -- brackets over several lines (optionally with an empty line / a comment inside)
  | 22 | 23 | 24 => do
    let x ← oneOf intVars
    let a ← genInt true 1 vars
    let b ← genInt true 1 vars
    let op ← oneOf [BinOp.add, .sub, .floordiv]
    let mid ← oneOf [[], [], [""], ["  # inside brackets"], ["", ""]]
    let ind ← oneOf ["", "  ", "        "]
    return codeItem [.assign x (.bin op a b)] ([s!"{x} = ({a.render} {op.sym}"] ++ mid ++ [ind ++ b.render ++ ")"])
      (["bracket"] ++ (if mid.contains "" then ["blank-inside"] else []))
  | 25 => do
    let a ← genInt true 1 vars
    return codeItem [.expr (.call1 "f" a)] ["f(", "  " ++ a.render, ")"] ["bracket"]
  -- triple-quoted strings
  | 26 | 27 => do
    let x ← oneOf strVars
    let p1 ← oneOf ["ab", "x y", "# c", "unexpected EOF while parsing"]
    let p2 ← oneOf ["cd", "", "  z"]
    let mid ← oneOf [[], [], [""], ["m"]]
    let q ← oneOf ["'''", "\"\"\""]
    let val := "\n".intercalate ([p1] ++ mid ++ [p2])
    let isExpr ← chance 1 3
    let body : List Stmt := if isExpr then [.expr (.str val)] else [.assign x (.str val)]
    let pre := if isExpr then "" else s!"{x} = "
    return { codeItem body ([pre ++ q ++ p1] ++ mid ++ [p2 ++ q]) (["triple"] ++ (if mid.contains "" then ["blank-inside"] else [])) with incMsg := tripleMsg }
  -- backslash continuation
  | 28 => do
    let x ← oneOf intVars
    let a ← genInt true 1 vars
    let b ← genInt true 1 vars
    return codeItem [.assign x (.bin .add a b)] [s!"{x} = {a.render} + \\", "    " ++ b.render] ["backslash"]
  -- bracket continuation inside a block
  | 29 => do
    let a ← genInt true 1 vars
    let c ← genBool vars
    return codeItem [.ifs c [.assign "a" (.bin .add a (.int 1)), .expr (.name "a")] []]
      [s!"if {c.render}:", s!"    a = ({a.render} +", "", "1)", "    a"] ["compound", "bracket", "blank-inside"]
  -- skipped lines
  | 30 => return { lines := [""], res := none, feats := ["blank"] }
  | 31 => return { lines := [← oneOf ["   ", "\t", " \t "]], res := none, feats := ["whitespace-line"] }
  | 32 => return { lines := [← oneOf ["# a comment", "#", "   # unexpected EOF while parsing", "# a = ("]], res := none, feats := ["comment"] }
  -- statements Python rejects: one line
  | 33 | 34 => do
    let (l, m) ← oneOf [("a = )", "invalid syntax"), ("1 +", "invalid syntax"), ("a = = 1", "invalid syntax"), ("if", "invalid syntax"),
      ("s = 'unexpected EOF while parsing' )", "invalid syntax"), ("b = (1 +* 2)  # unexpected EOF while parsing", "invalid syntax"),
      ("t = 'EOF while scanning triple-quoted string literal' 1", "invalid syntax"),
      ("return 1", "'return' outside function"), ("break", "'break' outside loop"), ("a = 'abc", "EOL while scanning string literal"),
      ("a = 1 $ 2", "invalid syntax"), ("  a = 1", "invalid syntax"), ("a b", "invalid syntax")]
    return { lines := [l], res := some (.synErr (synErr m (l ++ "\n"))), feats := ["synerr"] }
  -- … inside a multi-line statement: reported at the terminating empty line, nothing executed
  | 35 => do
    let bad ← oneOf ["    b = )", "    a = 1 1  # unexpected EOF while parsing", "  c = 2", "    return = 3"]
    let c ← genBool vars
    return { lines := [s!"if {c.render}:", "    a = 100", bad, "    c = 3"], res := some (.synErr (synErr "invalid syntax" (bad ++ "\n"))), feats := ["synerr", "synerr-multiline"] }
  | 36 => return { lines := ["def h():", "    a = 1", "h() = 2"], res := some (.synErr (synErr "invalid syntax" "h() = 2\n")), feats := ["synerr", "synerr-multiline"] }
  -- known finding K01: the first line is accepted as a complete statement
  | 37 => do
    let c ← genBool vars
    let s1 ← genSimple vars
    let s2 ← genSimple vars
    let l1 := s!"if {c.render}: {renderSimple s1}"
    let l2 := s!"else: {renderSimple s2}"
    return { lines := [l1, l2], res := some (.code [.ifs c [s1] [s2]]), kf := some "C20-K01", feats := ["kf-inline-else"],
             extra := [(text [l1], .ok [.ifs c [s1] []]), (text [l2], .error (synErr "invalid syntax" (l2 ++ "\n")))] }
  -- backslash-newline inside a single-quoted string (was known finding C20-K02, repaired by fix d93e0e4)
  | 38 => do
    let x ← oneOf strVars
    let q ← oneOf ["'", "\""]
    let l1 := s!"{x} = {q}ab\\"
    let l2 := "cd" ++ q
    return codeItem [.assign x (.str "abcd")] [l1, l2] ["string-backslash"]
  -- ---- second round: wider syntax (the body is the semantics of the lines in the fragment of Lang.lean) ----
  -- decorator (identity function `d`, defined in most sessions; NameError before the def otherwise)
  | 40 => do
    let k ← rnd 5
    let body : List Stmt := [.ret (.bin .add (.name "u") (.int (k : Nat)))]
    return codeItem [.assign "f" (.name "d"), .defn "f" ["u"] body, .assign "f" (.call1 "d" (.name "f"))]
      ["@d", "def f(u):", s!"    return (u + {k})"] ["decorator", "compound"]
  -- class statement with a nested def: `__repr__` returns a text or raises
  | 41 => do
    let raises ← chance 1 2
    let nm ← oneOf ["R", "T"]
    let ret := if raises then "        return 1 // 0" else s!"        return '{nm}!'"
    let cm ← chance 1 4
    return codeItem [.classdef nm (if raises then none else some (nm ++ "!"))]
      ([s!"class {nm}:"] ++ (if cm then ["    # the only member"] else []) ++ ["    def __repr__(self):", ret]) ["class", "nested-def"]
  -- instances echoed: repr may raise inside the echo
  | 42 | 43 => do
    let nm ← oneOf ["R", "T"]
    match ← rnd 5 with
    | 0 => return codeItem [.assign "o" (.call0 nm)] [s!"o = {nm}()"] ["instance"]
    | 1 => return codeItem [.expr (.name "o")] ["o"] ["instance", "echo-object"]
    | 2 => return codeItem [.expr (.call0 nm), .assign "a" (.int 1)] [s!"{nm}(); a = 1"] ["instance", "echo-object", "semicolon"]
    | 3 => return codeItem [.expr (.name nm)] [nm] ["echo-class"]
    | _ => return codeItem [.expr (.call0 nm)] [s!"{nm}()"] ["instance", "echo-object"]
  -- context manager class and with statement
  | 44 => do
    let ls := ["class CM:", "    def __enter__(self):", "        return 1", "    def __exit__(self, a, b, c):", "        return False"]
    return codeItem [.classdef "CM" (some "CM!")] ls ["class", "nested-def"]
  | 45 => do
    let blk ← genBlock 0 vars
    return codeItem ([.assign "w" (.call0 "CM"), .assign "w" (.int 1)] ++ blk) (["with CM() as w:"] ++ renderL 1 blk) ["with", "compound"]
  -- try / except / finally
  | 46 | 47 => do
    let s1 ← if (← chance 1 3) then pure (Stmt.assign "a" (.bin .floordiv (.int 1) (.int 0))) else genSimple vars
    let s1b ← genSimple vars
    let s2 ← genSimple vars
    let s3 ← genSimple vars
    let bare ← chance 1 2
    let fin ← chance 1 3
    let inner := Stmt.tryExcept [s1, s1b] (if bare then none else some "ZeroDivisionError") [s2]
    let ls := ["try:", "    " ++ renderSimple s1, "    " ++ renderSimple s1b, (if bare then "except:" else "except ZeroDivisionError:"), "    " ++ renderSimple s2]
    if fin then
      return codeItem [.tryFinally [inner] [s3]] (ls ++ ["finally:", "    " ++ renderSimple s3]) ["try", "finally", "compound"]
    else return codeItem [inner] ls ["try", "compound"]
  -- nested def
  | 48 => do
    let k ← rnd 4
    return codeItem [.defn "h" ["u"] [.defn "k" ["w"] [.expr (.name "w"), .ret (.bin .add (.name "w") (.int (k : Nat)))],
                                     .ret (.bin .mul (.call1 "k" (.name "u")) (.int 2))]]
      ["def h(u):", "    def k(w):", "        w", s!"        return (w + {k})", "    return (k(u) * 2)"] ["nested-def", "compound", "nested"]
  -- default arguments and lambda
  | 49 => do
    let dflt ← oneOf [Expr.int 2, .int 0, .name "a", .name "k"]
    return codeItem [.defnD "f2" ["u", "v"] [dflt] [.ret (.bin .mul (.name "u") (.name "v"))]]
      [s!"def f2(u, v={dflt.render}):", "    return (u * v)"] ["defaults", "compound"]
  | 50 => do
    let k ← rnd 5
    return codeItem [.lam "g2" ["u"] (.bin .sub (.name "u") (.int (k : Nat)))] [s!"g2 = lambda u: (u - {k})"] ["lambda"]
  | 51 => do
    let a ← genInt true 1 vars
    let f ← oneOf ["h", "f2", "g2", "f2"]
    if ← chance 1 4 then return codeItem [.expr (.call0 f)] [s!"{f}()"] ["call-new"]
    return codeItem [.expr (.call1 f a)] [s!"{f}({a.render})"] ["call-new"]
  -- displays over several lines with comments (and an empty line) inside
  | 52 => do
    let x ← oneOf intVars
    let a ← rnd 9
    let b ← rnd 9
    let i ← rnd 2
    let blank ← chance 1 2
    if ← chance 1 2 then
      return codeItem [.assign x (.int ((if i == 0 then a else b) : Nat))]
        ([s!"{x} = [{a},  # first"] ++ ["     # only a comment"] ++ (if blank then [""] else []) ++ [s!"     {b},", s!"    ][{i}]"])
        (["display", "bracket", "comment"] ++ (if blank then ["blank-inside"] else []))
    else
      return codeItem [.assign x (.int ((if i == 0 then a else b) : Nat))]
        ([s!"{x} = " ++ "{" ++ s!"'k': {a},  # c: d"] ++ (if blank then [""] else []) ++ [s!"  'j': {b}" ++ "}" ++ (if i == 0 then "['k']" else "['j']")])
        (["display", "bracket", "comment"] ++ (if blank then ["blank-inside"] else []))
  -- unicode identifiers and strings
  | 53 => do
    let v ← oneOf ["é", "λ", "中"]
    match ← rnd 4 with
    | 0 => do let k ← rnd 9; return codeItem [.assign v (.int (k : Nat))] [s!"{v} = {k}"] ["unicode"]
    | 1 => return codeItem [.expr (.bin .add (.name v) (.int 1))] [s!"({v} + 1)"] ["unicode"]
    | 2 => do let x ← oneOf strVars; return codeItem [.assign x (.bin .add (.str "λx → ") (.str "é中"))] [s!"{x} = ('λx → ' + 'é中')"] ["unicode"]
    | _ => return codeItem [.expr (.str "naïve ☃")] ["'naïve ☃'"] ["unicode"]
  -- very long lines
  | 54 => do
    let n ← rnd 300
    let n := n + 100
    if ← chance 1 2 then
      return codeItem [.assign "a" (.int (n : Nat))] ["a = " ++ " + ".intercalate (List.replicate n "1")] ["long-line"]
    else
      let body := String.mk (List.replicate (5 * n) 'x')
      return codeItem [.assign "s" (.str body)] [s!"s = '{body}'"] ["long-line"]
  -- the user rebinds / deletes `_`
  | 55 => do
    match ← rnd 3 with
    | 0 => do let k ← rnd 9; return codeItem [.assign "_" (.int (k : Nat))] [s!"_ = {k}"] ["underscore"]
    | 1 => return codeItem [.del "_"] ["del _"] ["underscore"]
    | _ => return codeItem [.expr (.name "_")] ["_"] ["underscore"]
  | _ => do
    let s ← genCompound 2 vars
    return codeItem [s] (renderS 0 s) ["compound"]

def genSession (n : Nat) : G (List GItem) := do
  let dirty ← chance 1 2
  let vars : Cfg := { vars := intVars ++ ["k"], dirty := dirty }
  let mut items : List GItem := []
  -- most sessions start by defining the names the later statements use
  let defs ← chance 9 10
  if defs || (← chance 1 2) then
    items := items ++ [codeItem [.assign "a" (.int 3)] ["a = 3"] ["simple"], codeItem [.assign "b" (.int 5), .assign "c" (.int (-2))] ["b = 5; c = (-2)"] ["semicolon"]]
  if defs || (← chance 1 2) then items := items ++ [codeItem [.assign "s" (.str "hi"), .assign "t" (.str "")] ["s = 'hi'; t = ''"] ["semicolon"]]
  if defs || (← chance 1 2) then items := items ++ [codeItem [.assign "k" (.int 2)] ["k = 2"] ["simple"]]
  if defs || (← chance 1 2) then items := items ++ [codeItem [.assign "p" (.bool true), .assign "q" .none] ["p = True; q = None"] ["semicolon"]]
  if defs || (← chance 1 2) then
    let s := Stmt.defn "f" ["u"] [.expr (.name "u"), .ret (.bin .mul (.name "u") (.int 2))]
    items := items ++ [codeItem [s] (renderS 0 s) ["compound"]]
  if defs || (← chance 1 3) then
    let s := Stmt.defn "g" [] [.pass]
    items := items ++ [codeItem [s] ["def g(): pass"] ["inline-compound"]]
  if defs || (← chance 1 2) then
    let s := Stmt.defn "d" ["u"] [.ret (.name "u")]
    items := items ++ [codeItem [s] (renderS 0 s) ["compound"]]
  for _ in [0:n] do
    items := items ++ [← genItem vars]
  -- look at the final state
  if dirty && (← chance 1 2) then items := items ++ [codeItem [.expr (.name "_")] ["_"] ["simple"]]
  return items

/-! ## fixed corpus: the boundary cases the property names, and the witnesses of the findings -/

def st (body : List Stmt) (lines : List String) : GItem := codeItem body lines []

def corpus : List (List GItem) :=
  let a1 := st [.assign "a" (.int 1)] ["a = 1"]
  [ -- None is neither echoed nor bound (fixed: 5049072)
    [st [.assign "x" (.int 5)] ["x = 5"], st [.expr (.name "x")] ["x"], st [.expr .none] ["None"], st [.expr (.name "_")] ["_"]],
    -- a syntax error whose source line contains the EOF message (fixed: a2406d5)
    [{ lines := ["s = 'unexpected EOF while parsing' )"], res := some (.synErr (synErr "invalid syntax" "s = 'unexpected EOF while parsing' )\n")) }, a1, st [.expr (.name "a")] ["a"]],
    -- a whitespace-only line (fixed: 9b205ea)
    [{ lines := ["   "], res := none }, a1, st [.assign "b" (.int 2)] ["b = 2"], { lines := [""], res := none }, st [.expr (.name "b")] ["b"]],
    -- K01 witness; the former K02 witness (repaired: fix d93e0e4)
    [st [.assign "x" (.int 0)] ["x = 0"],
     { lines := ["if x: y = 1", "else: y = 2"], res := some (.code [.ifs (.name "x") [.assign "y" (.int 1)] [.assign "y" (.int 2)]]), kf := some "C20-K01",
       extra := [(text ["if x: y = 1"], .ok [.ifs (.name "x") [.assign "y" (.int 1)] []]), (text ["else: y = 2"], .error (synErr "invalid syntax" "else: y = 2\n"))] },
     st [.expr (.name "y")] ["y"]],
    [st [.assign "s" (.str "abcd")] ["s = 'ab\\", "cd'"], st [.expr (.name "s")] ["s"]],
    -- runtime error in the middle of a loop: earlier effects stay, session goes on
    [st [.forRange "i" (.int 3) [.assign "x" (.bin .floordiv (.int 1) (.bin .sub (.int 1) (.name "i")))]] ["for i in range(3):", "    x = (1 // (1 - i))"],
     st [.expr (.name "i")] ["i"], st [.expr (.name "x")] ["x"]],
    -- expression statements inside a function body are not echoed; inside a top-level loop they are
    [st [.defn "f" ["u"] [.expr (.name "u"), .ret (.int 2)]] ["def f(u):", "    u", "    return 2"], st [.expr (.call1 "f" (.int 9))] ["f(9)"],
     st [.forRange "i" (.int 3) [.expr (.name "i")]] ["for i in range(3):", "    i"], st [.expr (.name "_")] ["_"]],
    -- empty lines inside brackets and triple-quoted strings do not end the statement
    [st [.assign "a" (.bin .add (.int 1) (.int 2))] ["a = (1 +", "", "2)"], st [.expr (.name "a")] ["a"],
     { st [.assign "s" (.str "a\n\nb")] ["s = '''a", "", "b'''"] with incMsg := tripleMsg }, st [.expr (.name "s")] ["s"]],
    -- repr raising inside the echo: reported, `_` left at None, session goes on; the statement after `;` is not run
    [st [.assign "x" (.int 5)] ["x = 5"], st [.expr (.name "x")] ["x"],
     st [.classdef "R" none] ["class R:", "    def __repr__(self):", "        return 1 // 0"],
     st [.expr (.call0 "R"), .assign "x" (.int 6)] ["R(); x = 6"], st [.expr (.name "_")] ["_"], st [.assign "o" (.call0 "R")] ["o = R()"],
     st [.expr (.name "o")] ["o"], st [.expr (.name "x")] ["x"], st [.expr (.name "_")] ["_"]],
    -- the user rebinds and deletes `_`
    [st [.assign "_" (.int 5)] ["_ = 5"], st [.expr (.int 7)] ["7"], st [.expr (.name "_")] ["_"], st [.del "_"] ["del _"],
     st [.expr (.name "_")] ["_"], st [.expr .none] ["None"], st [.del "_"] ["del _"]] ]

def emitSession (items : List GItem) (extraTags : List String := []) : IO Unit := do
  IO.println (sessionCase items extraTags).line
  for g in items do
    for c in oracleCases g do IO.println c.line

def genMain (tier : String) (seed : Nat) : IO Unit := do
  for s in corpus do emitSession s ["f:corpus"]
  let n := if tier == "thorough" then 60000 else 4000
  let mut r : Rng := ⟨seed.toUInt64 * 7919 + 13⟩
  for i in [0:n] do
    let (len, r1) := (rnd (if i % 10 == 0 then 14 else 7)) r
    let (items, r2) := (genSession (len + 1)) r1
    r := r2
    emitSession items

end GPy.C20
