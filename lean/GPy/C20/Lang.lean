/-
C20 – a small Python fragment (the statements the generated interactive sessions are made of)
with ONE evaluator skeleton shared by the model and the spec.  The skeleton is parametrised by
the *expression-statement hook*: what happens to the value of an expression statement.  That hook
is the mechanism C20 is about (compile.go: `Stmt(*ast.ExprStmt)`, vm/eval.go: `do_PRINT_EXPR` on
the model side, `sys.displayhook` on the spec side); everything else (arithmetic, control flow,
calls) is ordinary Python semantics that both sides share and that the correspondence run ties to
the implementation.  Core Lean only.
-/
import GPy.Common.Basic
namespace GPy.C20

inductive BinOp | add | sub | mul | floordiv | mod
deriving Repr, BEq, DecidableEq, Inhabited
inductive CmpOp | lt | le | eq | ne | gt | ge
deriving Repr, BEq, DecidableEq, Inhabited

inductive Expr
  | none
  | int (i : Int)
  | bool (b : Bool)
  | str (s : String)
  | name (x : String)
  | bin (op : BinOp) (a b : Expr)
  | cmp (op : CmpOp) (a b : Expr)
  | not (a : Expr)
  | call1 (f : String) (arg : Expr)      -- f(arg)
  | call0 (f : String)                   -- f()
deriving Repr, Inhabited

inductive Stmt
  | expr (e : Expr)
  | assign (x : String) (e : Expr)
  | aug (x : String) (op : BinOp) (e : Expr)
  | pass
  | del (x : String)
  | ret (e : Expr)
  | ifs (c : Expr) (t : List Stmt) (e : List Stmt)
  | whiles (c : Expr) (body : List Stmt)
  | forRange (x : String) (n : Expr) (body : List Stmt)
  | defn (f : String) (params : List String) (body : List Stmt)
  /-- `def f(params…, p=d…): body` – the last `defaults.length` parameters have default values -/
  | defnD (f : String) (params : List String) (defaults : List Expr) (body : List Stmt)
  /-- `x = lambda params: e` -/
  | lam (x : String) (params : List String) (e : Expr)
  /-- `class name:` whose only member is `__repr__`, returning the text (`some`) or raising ZeroDivisionError (`none`) -/
  | classdef (name : String) (repr : Option String)
  /-- `try: body except [cls]: handler` -/
  | tryExcept (body : List Stmt) (cls : Option String) (handler : List Stmt)
  /-- `try: body finally: fin` -/
  | tryFinally (body fin : List Stmt)
deriving Repr, Inhabited

/-- run-time values; functions are indices into the function table of the namespace -/
inductive Val
  | none | int (i : Int) | bool (b : Bool) | str (s : String) | fn (id : Nat)
  | cls (name : String) (repr : Option String)     -- a user class (see `Stmt.classdef`)
  | obj (repr : Option String)                     -- an instance of such a class
deriving Repr, BEq, DecidableEq, Inhabited

structure FunDef where
  name : String
  params : List String
  body : List Stmt
  nest : Nat            -- number of function definitions enclosing the body (compile depth − 1)
  defaults : List Val := []
deriving Inhabited

/-- the session namespace (module globals) + the functions defined so far -/
structure NS where
  vars : List (String × Val) := []
  funs : List FunDef := []
deriving Inhabited

/-- what a statement shows to the user -/
inductive Out
  | echo (text : String)       -- UI.Print from PRINT_EXPR
  | raised (cls : String)      -- traceback dumped for an uncaught exception of this class
deriving Repr, BEq, DecidableEq, Inhabited

def lookup (vs : List (String × Val)) (x : String) : Option Val :=
  match vs.find? (fun p => p.1 == x) with
  | some p => some p.2
  | none => Option.none

def setVar (vs : List (String × Val)) (x : String) (v : Val) : List (String × Val) :=
  if vs.any (fun p => p.1 == x) then vs.map (fun p => if p.1 == x then (x, v) else p) else vs ++ [(x, v)]

def delVar (vs : List (String × Val)) (x : String) : List (String × Val) := vs.filter (fun p => p.1 != x)

def truthy : Val → Bool
  | .none => false | .int i => i != 0 | .bool b => b | .str s => s != "" | .fn _ => true | .cls _ _ => true | .obj _ => true

/-- Python floor division / modulo on ℤ -/
def pyFloorDiv (a b : Int) : Int := Int.fdiv a b
def pyMod (a b : Int) : Int := Int.fmod a b

def strRepeat (s : String) (n : Int) : String := String.join (List.replicate n.toNat s)

def binop (op : BinOp) (a b : Val) : Except String Val :=
  match op, a, b with
  | .add, .int x, .int y => .ok (.int (x + y))
  | .sub, .int x, .int y => .ok (.int (x - y))
  | .mul, .int x, .int y => .ok (.int (x * y))
  | .floordiv, .int x, .int y => if y == 0 then .error "ZeroDivisionError" else .ok (.int (pyFloorDiv x y))
  | .mod, .int x, .int y => if y == 0 then .error "ZeroDivisionError" else .ok (.int (pyMod x y))
  | .add, .str x, .str y => .ok (.str (x ++ y))
  | .mul, .str x, .int y => .ok (.str (strRepeat x y))
  | .mul, .int x, .str y => .ok (.str (strRepeat y x))
  | _, _, _ => .error "TypeError"

def cmpop (op : CmpOp) (a b : Val) : Except String Val :=
  match a, b with
  | .int x, .int y =>
    .ok (.bool (match op with | .lt => x < y | .le => x ≤ y | .eq => x == y | .ne => x != y | .gt => x > y | .ge => x ≥ y))
  | .str x, .str y =>
    match op with
    | .eq => .ok (.bool (x == y)) | .ne => .ok (.bool (x != y))
    | _ => .error "TypeError"      -- (never generated: ordering of strings is not used)
  | _, _ =>
    match op with
    | .eq => .ok (.bool (a == b)) | .ne => .ok (.bool (a != b))
    | _ => .error "TypeError"

/-- Python `repr` of the fragment's values (strings here contain only printable ASCII without quotes or
backslashes, plus newlines) -/
def reprVal (funs : List FunDef) : Val → String
  | .none => "None"
  | .int i => toString i
  | .bool b => if b then "True" else "False"
  | .str s => "'" ++ s.replace "\n" "\\n" ++ "'"
  | .fn id => "<fn " ++ (funs.getD id default).name ++ ">"
  | .cls name _ => "<class '" ++ name ++ "'>"
  | .obj (some t) => t
  | .obj Option.none => "<repr failed>"

/-- the exception `repr(v)` raises, if it does (an instance whose `__repr__` divides by zero) -/
def reprErr : Val → Option String
  | .obj Option.none => some "ZeroDivisionError"
  | _ => Option.none

/-- The hook: given the nesting of the code object the statement was compiled in (0 = the interactive
top level) and the value, produce the new globals, what is shown and the class of the exception raised while showing it (if any). -/
abbrev ExprHook := (nest : Nat) → (funs : List FunDef) → Val → List (String × Val) → List (String × Val) × List Out × Option String

/-- control outcome of a statement list -/
inductive Flow | normal | ret (v : Val) | err (cls : String)
deriving Repr, Inhabited

/-- frame: globals, optional locals, function table, outputs (reversed) -/
structure St where
  g : List (String × Val)
  funs : List FunDef
  outs : List Out := []
deriving Inhabited

/-- names a function body assigns (they are its locals together with the parameters) -/
def assigned : Nat → List Stmt → List String
  | 0, _ => []
  | fuel + 1, ss => ss.flatMap fun s =>
    match s with
    | .assign x _ | .aug x _ _ => [x]
    | .forRange x _ b => x :: assigned fuel b
    | .ifs _ t e => assigned fuel t ++ assigned fuel e
    | .whiles _ b => assigned fuel b
    | .defn f _ _ => [f]
    | .defnD f _ _ _ => [f]
    | .lam x _ _ => [x]
    | .classdef n _ => [n]
    | .tryExcept b _ h => assigned fuel b ++ assigned fuel h
    | .tryFinally b f => assigned fuel b ++ assigned fuel f
    | _ => []

mutual
/-- expressions: `loc` = the locals of the running function (none at module level) -/
def evalE (hk : ExprHook) : Nat → Expr → Option (List (String × Val)) → St → Except String Val × St
  | 0, _, _, st => (.error "FUEL", st)
  | fuel + 1, e, loc, st =>
    match e with
    | .none => (.ok .none, st)
    | .int i => (.ok (.int i), st)
    | .bool b => (.ok (.bool b), st)
    | .str s => (.ok (.str s), st)
    | .name x =>
      match (loc.bind (lookup · x)).orElse (fun _ => lookup st.g x) with
      | some v => (.ok v, st)
      | Option.none => (.error "NameError", st)
    | .bin op a b =>
      match evalE hk fuel a loc st with
      | (.error c, st) => (.error c, st)
      | (.ok va, st) =>
        match evalE hk fuel b loc st with
        | (.error c, st) => (.error c, st)
        | (.ok vb, st) => (binop op va vb, st)
    | .cmp op a b =>
      match evalE hk fuel a loc st with
      | (.error c, st) => (.error c, st)
      | (.ok va, st) =>
        match evalE hk fuel b loc st with
        | (.error c, st) => (.error c, st)
        | (.ok vb, st) => (cmpop op va vb, st)
    | .not a =>
      match evalE hk fuel a loc st with
      | (.error c, st) => (.error c, st)
      | (.ok va, st) => (.ok (.bool (!truthy va)), st)
    | .call0 f => callF hk fuel f [] loc st
    | .call1 f a => callF hk fuel f [a] loc st

def callF (hk : ExprHook) : Nat → String → List Expr → Option (List (String × Val)) → St → Except String Val × St
  | 0, _, _, _, st => (.error "FUEL", st)
  | fuel + 1, f, args, loc, st =>
    match evalE hk fuel (.name f) loc st with
    | (.error c, st) => (.error c, st)
    | (.ok fv, st) =>
      match evalArgs hk fuel args loc st with
      | (.error c, st) => (.error c, st)
      | (.ok vs, st) =>
        match fv with
        | .cls _ r => if vs.isEmpty then (.ok (.obj r), st) else (.error "TypeError", st)
        | .fn id =>
          let fd := st.funs.getD id default
          let n := fd.params.length
          if vs.length > n || vs.length + fd.defaults.length < n then (.error "TypeError", st) else
          let vs := vs ++ fd.defaults.drop (fd.defaults.length - (n - vs.length))
          match execL hk fuel fd.body (some (fd.params.zip vs)) (fd.nest + 1) st with
          | (.normal, _, st) => (.ok .none, st)
          | (.ret v, _, st) => (.ok v, st)
          | (.err c, _, st) => (.error c, st)
        | _ => (.error "TypeError", st)

def evalArgs (hk : ExprHook) : Nat → List Expr → Option (List (String × Val)) → St → Except String (List Val) × St
  | 0, _, _, st => (.error "FUEL", st)
  | _ + 1, [], _, st => (.ok [], st)
  | fuel + 1, a :: as, loc, st =>
    -- arguments left to right
    match evalE hk fuel a loc st with
    | (.error c, st) => (.error c, st)
    | (.ok v, st) =>
      match evalArgs hk fuel as loc st with
      | (.error c, st) => (.error c, st)
      | (.ok vs, st) => (.ok (v :: vs), st)

def forLoop (hk : ExprHook) : Nat → String → Nat → Nat → List Stmt → Option (List (String × Val)) → Nat → St → Flow × Option (List (String × Val)) × St
  | 0, _, _, _, _, loc, _, st => (.err "FUEL", loc, st)
  | _ + 1, _, _, 0, _, loc, _, st => (.normal, loc, st)
  | fuel + 1, x, i, cnt + 1, body, loc, nest, st =>
    let (loc, st) : Option (List (String × Val)) × St :=
      match loc with
      | some l => (some (setVar l x (.int i)), st)
      | Option.none => (Option.none, { st with g := setVar st.g x (.int i) })
    match execL hk fuel body loc nest st with
    | (.normal, loc, st) => forLoop hk fuel x (i + 1) cnt body loc nest st
    | r => r

/-- statement lists; `nest` = number of function definitions enclosing this code (compile time) -/
def execL (hk : ExprHook) : Nat → List Stmt → Option (List (String × Val)) → Nat → St → Flow × Option (List (String × Val)) × St
  | 0, _, loc, _, st => (.err "FUEL", loc, st)
  | _ + 1, [], loc, _, st => (.normal, loc, st)
  | fuel + 1, s :: rest, loc, nest, st =>
    match execS hk fuel s loc nest st with
    | (.normal, loc, st) => execL hk fuel rest loc nest st
    | r => r

def execS (hk : ExprHook) : Nat → Stmt → Option (List (String × Val)) → Nat → St → Flow × Option (List (String × Val)) × St
  | 0, _, loc, _, st => (.err "FUEL", loc, st)
  | fuel + 1, s, loc, nest, st =>
    let store (x : String) (v : Val) (loc : Option (List (String × Val))) (st : St) : Option (List (String × Val)) × St :=
      match loc with
      | some l => (some (setVar l x v), st)
      | Option.none => (Option.none, { st with g := setVar st.g x v })
    match s with
    | .expr e =>
      match evalE hk fuel e loc st with
      | (.error c, st) => (.err c, loc, st)
      | (.ok v, st) =>
        let (g', o, er) := hk nest st.funs v st.g
        let st := { st with g := g', outs := o.reverse ++ st.outs }
        match er with
        | some c => (.err c, loc, st)
        | Option.none => (.normal, loc, st)
    | .assign x e =>
      match evalE hk fuel e loc st with
      | (.error c, st) => (.err c, loc, st)
      | (.ok v, st) => let (loc, st) := store x v loc st; (.normal, loc, st)
    | .aug x op e =>
      match evalE hk fuel (.name x) loc st with
      | (.error c, st) => (.err c, loc, st)
      | (.ok v0, st) =>
        match evalE hk fuel e loc st with
        | (.error c, st) => (.err c, loc, st)
        | (.ok v, st) =>
          match binop op v0 v with
          | .error c => (.err c, loc, st)
          | .ok r => let (loc, st) := store x r loc st; (.normal, loc, st)
    | .pass => (.normal, loc, st)
    | .del x =>
      match loc with
      | some l => if (lookup l x).isSome then (.normal, some (delVar l x), st) else (.err "NameError", loc, st)
      | Option.none => if (lookup st.g x).isSome then (.normal, loc, { st with g := delVar st.g x }) else (.err "NameError", loc, st)
    | .ret e =>
      match evalE hk fuel e loc st with
      | (.error c, st) => (.err c, loc, st)
      | (.ok v, st) => (.ret v, loc, st)
    | .ifs c t e =>
      match evalE hk fuel c loc st with
      | (.error c, st) => (.err c, loc, st)
      | (.ok v, st) => if truthy v then execL hk fuel t loc nest st else execL hk fuel e loc nest st
    | .whiles c body =>
      match evalE hk fuel c loc st with
      | (.error c, st) => (.err c, loc, st)
      | (.ok v, st) =>
        if truthy v then
          match execL hk fuel body loc nest st with
          | (.normal, loc, st) => execS hk fuel (.whiles c body) loc nest st
          | r => r
        else (.normal, loc, st)
    | .forRange x n body =>
      match evalE hk fuel n loc st with
      | (.error c, st) => (.err c, loc, st)
      | (.ok (.int k), st) =>
        forLoop hk fuel x 0 k.toNat body loc nest st
      | (.ok _, st) => (.err "TypeError", loc, st)
    | .defn f params body =>
      let id := st.funs.length
      let st := { st with funs := st.funs ++ [{ name := f, params := params, body := body, nest := nest + 1 }] }
      let (loc, st) := store f (.fn id) loc st
      (.normal, loc, st)
    | .defnD f params dflts body =>
      match evalArgs hk fuel dflts loc st with
      | (.error c, st) => (.err c, loc, st)
      | (.ok ds, st) =>
        let id := st.funs.length
        let st := { st with funs := st.funs ++ [{ name := f, params := params, body := body, nest := nest + 1, defaults := ds }] }
        let (loc, st) := store f (.fn id) loc st
        (.normal, loc, st)
    | .lam x params e =>
      let id := st.funs.length
      let st := { st with funs := st.funs ++ [{ name := "<lambda>", params := params, body := [.ret e], nest := nest + 1 }] }
      let (loc, st) := store x (.fn id) loc st
      (.normal, loc, st)
    | .classdef name r =>
      let (loc, st) := store name (.cls name r) loc st
      (.normal, loc, st)
    | .tryExcept body cls handler =>
      match execL hk fuel body loc nest st with
      | (.err c, loc, st) =>
        if c != "FUEL" && (cls.isNone || cls == some c) then execL hk fuel handler loc nest st else (.err c, loc, st)
      | r => r
    | .tryFinally body fin =>
      match execL hk fuel body loc nest st with
      | (fl, loc, st) =>
        match execL hk fuel fin loc nest st with
        | (.normal, loc, st) => (fl, loc, st)
        | r => r
end

/-- Run the body of one interactive statement (`ast.Interactive.Body`) in the session namespace:
the new namespace and what is shown (echoes in order, then the class of an uncaught exception). -/
def runBody (hk : ExprHook) (fuel : Nat) (body : List Stmt) (ns : NS) : NS × List Out :=
  match execL hk fuel body Option.none 0 { g := ns.vars, funs := ns.funs } with
  | (.err c, _, st) => ({ vars := st.g, funs := st.funs }, st.outs.reverse ++ [.raised c])
  | (_, _, st) => ({ vars := st.g, funs := st.funs }, st.outs.reverse)

def fuelDefault : Nat := 4000

end GPy.C20
