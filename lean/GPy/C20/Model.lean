/-
C20 – model of the interactive interpreter, transliterated from the Go code (after the `fix:`
commits listed in KNOWN_FINDINGS.txt):

  repl/repl.go      REPL.Run (continuation, previous, prompt switching, error printing),
                    needsMoreInput, the comment / blank-line special case
  py/exception.go   (*Exception).Error() – the formatted text of a SyntaxError (embeds the source line)
  compile/compile.go  Stmt(*ast.ExprStmt): PRINT_EXPR iff interactive && depth <= 1
  vm/eval.go        do_PRINT_EXPR (`_` binding, None neither echoed nor bound)

The compile step `py.Compile(text, "<stdin>", py.SingleMode, 0, true)` (lexer in interactive mode,
`single_input` grammar, symtable, compiler) is an ORACLE of the model (`World.compile`); its contract
is stated in Spec.lean and tied to the real pipeline by the `O` cases of the correspondence run.
Core Lean only.
-/
import GPy.C20.Lang
namespace GPy.C20

/-! ## The compile oracle's error value -/

/-- a SyntaxError as produced by parser.Parse / the compiler: `Args[0]` and the location dict -/
structure SynErr where
  msg : String                 -- Args[0]
  line : String := ""          -- Dict["line"]: the source line (lexer's lastLine) – arbitrary program text
  lineno : Nat := 1
  offset : Nat := 0
deriving Repr, BEq, DecidableEq, Inhabited

inductive CResult (Code : Type)
  | ok (c : Code)
  | error (e : SynErr)
deriving Inhabited, DecidableEq

def eofMsg : String := "unexpected EOF while parsing"
def tripleMsg : String := "EOF while scanning triple-quoted string literal"

/-- py/exception.go `(*Exception).Error()` for a SyntaxError raised for file "<stdin>" -/
def errText (e : SynErr) : String :=
  "\n  File \"<stdin>\", line " ++ toString e.lineno ++ ", offset " ++ toString e.offset ++ "\n    " ++ e.line ++
  "\n\n" ++ "SyntaxError: '" ++ e.msg ++ "'"

/-- repl.go `needsMoreInput`: the test is on the message of the exception -/
def needsMoreInput (e : SynErr) : Bool :=
  e.msg == eofMsg || e.msg == tripleMsg

/-- `strings.Contains` -/
def isInfix : List Char → List Char → Bool
  | pat, [] => pat.isEmpty
  | pat, c :: cs => pat.isPrefixOf (c :: cs) || isInfix pat cs

/-- the test `REPL.Run` made BEFORE the fix (kept for the record, see `old_textual_test_witness`):
`strings.Contains(err.Error(), …)` on the formatted text, which embeds the source line -/
def needsMoreInputOld (e : SynErr) : Bool :=
  isInfix eofMsg.toList (errText e).toList || isInfix tripleMsg.toList (errText e).toList

/-- Go `unicode.IsSpace` on the characters `strings.TrimSpace` removes -/
def isGoSpace (c : Char) : Bool :=
  c == ' ' || c == '\t' || c == '\n' || c == '\x0b' || c == '\x0c' || c == '\r' || c == '\u0085' || c == '\u00a0'

/-- first character of `strings.TrimSpace(s)` if there is one -/
def firstNonSpace (s : String) : Option Char := (s.toList.dropWhile isGoSpace).head?

/-- repl.go: `stripped := strings.TrimSpace(toCompile); isComment := len(stripped) == 0 || stripped[0] == '#'` -/
def isBlankOrComment (s : String) : Bool :=
  match firstNonSpace s with
  | none => true
  | some c => c == '#'

/-! ## The world the REPL runs in -/

structure World where
  Code : Type
  NS : Type
  /-- py.Compile(text, "<stdin>", py.SingleMode, 0, true) -/
  compile : String → CResult Code
  /-- Context.RunCode(code, Module.Globals, Module.Globals, nil) with vm.PrintExpr = term.Print,
  followed by py.TracebackDump of an uncaught exception: new globals, echoes, error report -/
  run : Code → NS → NS × List Out

def NormalPrompt : String := ">>> "
def ContinuationPrompt : String := "... "

/-- REPL struct (+ the UI's current prompt, + the session module's globals) -/
structure ReplState (NS : Type) where
  continuation : Bool := false
  previous : String := ""
  prompt : String := NormalPrompt
  ns : NS

/-- calls made by one `Run` -/
inductive Action
  | setPrompt (p : String)               -- term.SetPrompt
  | print (text : String)                -- term.Print("Compile error: …")
  | exec (src : String) (outs : List Out)  -- RunCode of the code compiled from the text `src`; its echoes / error report
deriving Repr, BEq, DecidableEq, Inhabited

/-- `func (r *REPL) Run(line string) error` (the SystemExit return is not modelled) -/
def step (W : World) (s : ReplState W.NS) (line : String) : ReplState W.NS × List Action :=
  if s.continuation && line != "" then
    ({ s with previous := s.previous ++ line ++ "\n" }, [])
  else
    let toCompile := s.previous ++ line
    if toCompile == "" then (s, [])
    else
      match W.compile (toCompile ++ "\n") with
      | .error e =>
        if needsMoreInput e then
          if isBlankOrComment toCompile then (s, [])
          else ({ s with continuation := true, previous := s.previous ++ line ++ "\n", prompt := ContinuationPrompt },
                [.setPrompt ContinuationPrompt])
        else
          ({ s with continuation := false, prompt := NormalPrompt, previous := "" },
           [.setPrompt NormalPrompt, .print ("Compile error: " ++ errText e)])
      | .ok code =>
        let (ns', outs) := W.run code s.ns
        ({ continuation := false, prompt := NormalPrompt, previous := "", ns := ns' },
         [.setPrompt NormalPrompt, .exec (toCompile ++ "\n") outs])

/-- what one physical line shows: the prompt displayed afterwards and the non-prompt actions -/
structure LineObs where
  prompt : String
  acts : List Action
deriving Repr, BEq, DecidableEq, Inhabited

def notPrompt : Action → Bool
  | .setPrompt _ => false
  | _ => true

def stepObs (W : World) (s : ReplState W.NS) (line : String) : ReplState W.NS × LineObs :=
  let r := step W s line
  (r.1, { prompt := r.1.prompt, acts := r.2.filter notPrompt })

/-- feed physical lines one at a time -/
def runLines (W : World) (s : ReplState W.NS) : List String → ReplState W.NS × List LineObs
  | [] => (s, [])
  | l :: ls =>
    let r := stepObs W s l
    let r' := runLines W r.1 ls
    (r'.1, r.2 :: r'.2)

/-! ## Expression statements in interactive mode -/

/-- vm/eval.go do_PRINT_EXPR -/
def doPrintExpr (funs : List FunDef) (value : Val) (g : List (String × Val)) : List (String × Val) × List Out × Option String :=
  if value = Val.none then (g, [], none)
  else
    let g := setVar g "_" .none
    -- `repr, err := py.Repr(value); if err != nil { return err }`
    match reprErr value with
    | some c => (g, [], some c)
    | none =>
      let r := reprVal funs value
      (setVar g "_" value, [.echo r], none)

/-- compile.go: `if c.interactive && c.depth <= 1 { c.Expr(v); c.Op(PRINT_EXPR) } else { …; c.Op(POP_TOP) }`
with `depth = nest + 1` (newCompiler: depth 1 for the module, parent.depth + 1 below) -/
def modelHook (interactive : Bool) : ExprHook := fun nest funs v g =>
  let depth := nest + 1
  if interactive && depth ≤ 1 then doPrintExpr funs v g else (g, [], none)

/-- the concrete code objects of the fragment: the body of `ast.Interactive` -/
def modelRun (body : List Stmt) (ns : NS) : NS × List Out := runBody (modelHook true) fuelDefault body ns

end GPy.C20
