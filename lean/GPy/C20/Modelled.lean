/-
C20 – the oracle contract of Spec.lean instantiated from the pipeline model (Pipe.lean) for VALID statements:
`first_incomplete` and `blank_incomplete` are no longer assumed but derived from `complete` by
`incomplete_iff_prefix` (PipeProofs.lean); what is left of them is the token-level exclusion of C20-K01
(`parserWaiting`: the parser gives no verdict of its own on the partial text) and the fuel of the lexer model.
-/
import GPy.C20.PipeProofs
namespace GPy.C20

variable {Code : Type}

/-- the modelled contract of one valid statement -/
structure EntryOKM (G : Grammar Code) (s : Entry Code) : Prop where
  /-- a statement starts with a line that is neither empty, nor blank, nor a comment -/
  first : ∃ l rest, s.lines = l :: rest ∧ isBlankOrComment l = false
  /-- the statement is valid … -/
  valid : ∃ c, s.res = .code c
  /-- … and the modelled pipeline compiles its complete text (with the terminating empty line) to that code -/
  complete : compileM G (text s.fed) = s.res.toC
  /-- the fuel of the lexer model suffices for the partial texts the REPL compiles -/
  first_stops : ∀ l rest, s.lines = l :: rest → rest ≠ [] → lexStops (text [l]) = true
  blank_stops : ∀ done rest, done ≠ [] → s.lines = done ++ "" :: rest → lexStops (text (done ++ [""])) = true
  /-- excluded: C20-K01 at token level – on the tokens of the partial texts the parser gives no verdict of its own
  (it neither returns a tree for them nor rejects them with a message of a semantic action) -/
  first_waiting : ∀ l rest, s.lines = l :: rest → rest ≠ [] → parserWaiting G (text [l]) = true
  blank_waiting : ∀ done rest, done ≠ [] → s.lines = done ++ "" :: rest → parserWaiting G (text (done ++ [""])) = true

theorem text_append (xs ys : List String) : text (xs ++ ys) = text xs ++ text ys := by
  induction xs with
  | nil => simp [text]
  | cons x xs ih => simp [text, ih, String.append_assoc]

theorem text_last_newline {xs : List String} (h : xs ≠ []) : (text xs).toList.getLast? = some '\n' := by
  obtain ⟨ys, l, rfl⟩ : ∃ ys l, xs = ys ++ [l] := ⟨xs.dropLast, xs.getLast h, (List.dropLast_concat_getLast h).symm⟩
  rw [text_append_single]
  simp [String.toList_append]

theorem fed_multi (s : Entry Code) (h : 1 < s.lines.length) : s.fed = s.lines ++ [""] := by
  unfold Entry.fed; rw [if_neg (by omega)]

theorem EntryOKM.toOK {NS : Type} {G : Grammar Code} (run : Code → NS → NS × List Out) {s : Entry Code}
    (h : EntryOKM G s) : EntryOK (worldOf Code NS G run) s where
  first := h.first
  final := by
    obtain ⟨c, hc⟩ := h.valid
    intro e he; rw [hc] at he; cases he
  complete := h.complete
  first_incomplete := by
    intro l rest hl hr
    obtain ⟨c, hc⟩ := h.valid
    have hfed : s.fed = [l] ++ (rest ++ [""]) := by
      rw [fed_multi s (by rw [hl]; cases rest with | nil => exact absurd rfl hr | cons _ _ => simp), hl]; simp
    have hab : compileM G (text [l] ++ text (rest ++ [""])) = .ok c := by
      rw [← text_append, ← hfed, h.complete, hc]; rfl
    exact (incomplete_iff_prefix_lemma G _ _ c hab (text_last_newline (by simp)) (h.first_stops l rest hl hr)).mpr
      (h.first_waiting l rest hl hr)
  blank_incomplete := by
    intro done rest hd hl
    obtain ⟨c, hc⟩ := h.valid
    have hfed : s.fed = (done ++ [""]) ++ (rest ++ [""]) := by
      rw [fed_multi s (by rw [hl]; cases done with | nil => exact absurd rfl hd | cons _ _ => simp; omega), hl]; simp
    have hab : compileM G (text (done ++ [""]) ++ text (rest ++ [""])) = .ok c := by
      rw [← text_append, ← hfed, h.complete, hc]; rfl
    exact (incomplete_iff_prefix_lemma G _ _ c hab (text_last_newline (by simp)) (h.blank_stops done rest hd hl)).mpr
      (h.blank_waiting done rest hd hl)

/-- a program item is covered either by the pipeline model (valid statements) or by the oracle contract
(statements Python rejects, skipped lines) -/
def ItemOKM {NS : Type} (G : Grammar Code) (run : Code → NS → NS × List Out) : Item Code → Prop
  | .stmt s => EntryOKM G s ∨ EntryOK (worldOf Code NS G run) s
  | .skip l => ItemOK (worldOf Code NS G run) (.skip l)

def ContractM {NS : Type} (G : Grammar Code) (run : Code → NS → NS × List Out) (prog : List (Item Code)) : Prop :=
  ∀ it ∈ prog, ItemOKM G run it

theorem ContractM.toContract {NS : Type} {G : Grammar Code} {run : Code → NS → NS × List Out} {prog : List (Item Code)}
    (h : ContractM G run prog) : Contract (worldOf Code NS G run) prog := by
  intro it hit
  have := h it hit
  cases it with
  | stmt s =>
    rcases this with hm | ho
    · exact hm.toOK run
    · exact ho
  | skip l => exact this

end GPy.C20
