/-
C20 – model of the compile pipeline in `single` mode as far as the question "does the text need
more input?" is concerned (replaces the compile ORACLE of Model.lean for valid statements):

  parser/lexer.go   Lex in interactive mode = the C06 lexer model (`GPy.C06.step`, unchanged), driven
                    here by `runE`, which also records the lexer's `eof` flag at the moment every
                    token is handed to the parser (`x.eof` is what `ErrorReturn` looks at)
  parser/lexer.go   ErrorReturn: a parse error without an explicit message is "unexpected EOF while
                    parsing" iff `x.eof`, else "invalid syntax"
  parser/lexer.go   readString at the end of the input (triple-quoted literal, or – after fix d93e0e4 –
                    a single-quoted literal continued by backslash-newline): a "more input" message
  parser/y.go       yyParse: an ONLINE deterministic machine fed one token at a time.  It is NOT
                    modelled; it is the parameter `Grammar.status`: after the tokens fed so far the
                    parser is still reading (`more`), has returned from the action of `inputs`
                    (`done`, with what the compiler then makes of the tree), or has failed (`dead`;
                    `some e` = a semantic action raised the explicit error `e`, `none` = the automaton
                    called `yyLex.Error("syntax error")`).  The only thing assumed about it is that
                    its verdict depends on nothing but the tokens it has been given.

The text handed to the pipeline must end in a newline (REPL.Run always compiles `toCompile + "\n"`);
for such texts every lexer error raised after the end of the input was reached is a string literal
that ran into the end of the input (nothing else can fail on an empty line), i.e. one of the two
"more input" messages; the model does not distinguish the two.  Core Lean only.
-/
import GPy.C20.Model
import GPy.C06.Model
namespace GPy.C20
open GPy.C06 (LexSt Tok StepRes)

/-- verdict of the parser after the tokens fed so far -/
inductive PStat (Code : Type)
  | more
  | done (r : CResult Code)
  | dead (explicit : Option SynErr)

/-- the parser (+ compiler) as an online machine: its state is a function of the tokens fed -/
structure Grammar (Code : Type) where
  status : List Tok → PStat Code

/-- the lexer run to its end; every token is paired with the lexer's `eof` flag at the time it is returned
(tokens accumulated in reverse, as in `GPy.C06.run`) -/
def runE : Nat → LexSt → List (Tok × Bool) → LexSt × List (Tok × Bool) × Bool
  | 0, s, out => (s, out, false)
  | f + 1, s, out =>
    match C06.step s with
    | (s', .cont) => runE f s' out
    | (s', .emit t) => runE f s' ((t, s'.eof) :: out)
    | (s', .stop) => (s', out, true)

/-- feed the tokens to the parser one by one: the first verdict that is not `more`, with the `eof`
flag of the token it was reached on -/
def firstVerdict {Code} (G : Grammar Code) : List Tok → List (Tok × Bool) → Option (PStat Code × Bool)
  | _, [] => none
  | seen, (t, fl) :: rest =>
    match G.status (seen ++ [t]) with
    | .more => firstVerdict G (seen ++ [t]) rest
    | v => some (v, fl)

/-- stands for any of the lexer's explicit messages that are not a request for more input
("invalid syntax", "EOL while scanning string literal", "Inconsistent indent", …) -/
def lexErrMsg : String := "invalid syntax"

/-- what `Parse` / `py.Compile` return for a verdict (ErrorReturn: `x.eof` decides the message of a bare parse error) -/
def verdictResult {Code} : PStat Code × Bool → CResult Code
  | (.done r, _) => r
  | (.dead (some e), _) => .error e
  | (.dead none, fl) => .error { msg := if fl then eofMsg else lexErrMsg }
  | (.more, _) => .error { msg := lexErrMsg }      -- (not produced by `firstVerdict`)

def lexSingle (cs : List Char) : LexSt × List (Tok × Bool) × Bool :=
  runE (C06.lexFuel cs) (C06.initLex cs .single) []

/-- the tokens of a text in single mode, in order, with their `eof` flags -/
def toksOf (t : String) : List (Tok × Bool) := (lexSingle t.toList).2.1.reverse

/-- the fuel of the lexer model suffices for this text (the lexer reached `return eof`) -/
def lexStops (t : String) : Bool := (lexSingle t.toList).2.2

/-- `py.Compile(t, "<stdin>", py.SingleMode, 0, true)` for a newline-terminated text -/
def compileM {Code} (G : Grammar Code) (t : String) : CResult Code :=
  let cs := t.toList
  if cs.getLast? != some '\n' then .error { msg := "model: text is not newline-terminated" } else
  match lexSingle cs with
  | (_, _, false) => .error { msg := "model: lexer fuel exhausted" }
  | (s, out, true) =>
    match firstVerdict G [] out.reverse with
    | some v => verdictResult v
    | none =>
      -- the parser was still reading when the lexer returned `eof`
      if s.err then .error { msg := if s.eof then eofMsg else lexErrMsg }   -- the lexer's own error
      else .error { msg := eofMsg }                                          -- `$end` not expected; x.eof holds

/-- the parser gives no verdict on the tokens of `t`, other than asking for more: it neither returns a
tree nor rejects the tokens with a message of its own -/
def parserWaiting {Code} (G : Grammar Code) (t : String) : Bool :=
  match firstVerdict G [] (toksOf t) with
  | none => true
  | some (.dead none, _) => true
  | some (.dead (some e), _) => needsMoreInput e
  | some (.done (.error e), _) => needsMoreInput e
  | some (.done (.ok _), _) => false
  | some (.more, _) => false

/-- the world whose compile step is the modelled pipeline -/
def worldOf (Code NS : Type) (G : Grammar Code) (run : Code → NS → NS × List Out) : World :=
  { Code := Code, NS := NS, compile := compileM G, run := run }

end GPy.C20
