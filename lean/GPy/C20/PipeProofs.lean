/-
C20 – lemmas about the C06 lexer model used by the pipeline theorems: lexing a text `a ++ b` runs in
lockstep with lexing `a` until `a` is exhausted (`step_ext`, `sim`), the `eof` flag never falls back.
-/
import GPy.C20.Pipe
import GPy.C20.Proofs
namespace GPy.C20
open GPy.C06 (LexSt Tok StepRes refill splitLine fixCRLF readStringBody readStringFound readStringTok StrRes scanLine)

/-- the same lexer state with more text behind the unread part of the reader -/
def ext (b : List Char) (s : LexSt) : LexSt := { s with rest := s.rest ++ b }

/-! ## refill -/

theorem splitLine_cons (c : Char) (cs : List Char) :
    splitLine (c :: cs) = if c = '\n' then (['\n'], cs) else (c :: (splitLine cs).1, (splitLine cs).2) := by
  by_cases hc : c = '\n' <;> simp [splitLine, hc]

theorem splitLine_append (b : List Char) : ∀ r : List Char, (splitLine r).1.getLast? = some '\n' →
    splitLine (r ++ b) = ((splitLine r).1, (splitLine r).2 ++ b) := by
  intro r
  induction r with
  | nil => intro h; simp [splitLine] at h
  | cons c cs ih =>
    intro h
    rw [List.cons_append, splitLine_cons, splitLine_cons]
    rw [splitLine_cons] at h
    by_cases hc : c = '\n'
    · simp [hc]
    · simp only [hc, if_false] at h ⊢
      have h' : (splitLine cs).1.getLast? = some '\n' := by
        cases hs : (splitLine cs).1 with
        | nil => rw [hs] at h; simp at h; exact absurd h hc
        | cons x xs => rw [hs] at h; simpa [List.getLast?_cons_cons] using h
      rw [ih h']

theorem splitLine_length : ∀ r : List Char, (splitLine r).1.length + (splitLine r).2.length = r.length := by
  intro r
  induction r with
  | nil => simp [splitLine]
  | cons c cs ih =>
    rw [splitLine_cons]
    by_cases hc : c = '\n'
    · simp [hc]; omega
    · simp only [hc, if_false, List.length_cons]; omega

theorem refill_eof_false {s : LexSt} (h : (refill s).eof = false) :
    s.eof = false ∧ (splitLine s.rest).1.getLast? = some '\n' := by
  simp only [refill] at h
  simpa using h

theorem refill_ext (b : List Char) (s : LexSt) (h : (refill s).eof = false) :
    refill (ext b s) = ext b (refill s) := by
  obtain ⟨h1, h2⟩ := refill_eof_false h
  simp only [refill, ext, splitLine_append b s.rest h2]

theorem refill_rest_lt {s : LexSt} (h : (refill s).eof = false) : (refill s).rest.length < s.rest.length := by
  obtain ⟨_, h2⟩ := refill_eof_false h
  have hl := splitLine_length s.rest
  have : (splitLine s.rest).1 ≠ [] := by intro e; rw [e] at h2; simp at h2
  have : 0 < (splitLine s.rest).1.length := List.length_pos_iff.mpr this
  simp only [refill]
  omega

theorem refill_eof_mono {s : LexSt} (h : s.eof = true) : (refill s).eof = true := by
  simp [refill, h]

/-! ## readString -/

def _root_.GPy.C06.StrRes.mapSt (g : LexSt → LexSt) : StrRes → StrRes
  | .notString => .notString
  | .bad s => .bad (g s)
  | .ok v s => .ok v (g s)

/-- the `eof` flag of the state a string literal leaves behind -/
def _root_.GPy.C06.StrRes.eof : StrRes → Bool
  | .notString => false
  | .bad s => s.eof
  | .ok _ s => s.eof

theorem rsb_succ (raw bytes multi : Bool) (endq : List Char) (f : Nat) (s : LexSt) (buf : List Char) :
    readStringBody raw bytes multi endq (f + 1) s buf =
      match scanLine raw multi endq s.line false buf with
      | .found buf restLine =>
        (match C06.strValue raw bytes buf.reverse with
         | .error _ => .bad { s with line := restLine }
         | .ok v => .ok v { s with line := restLine })
      | .more buf => if s.eof then .bad s else readStringBody raw bytes multi endq f (refill s) buf
      | .lineEnd buf => if !multi then .bad s else if s.eof then .bad s else readStringBody raw bytes multi endq f (refill s) buf := by
  rfl

theorem rsb_eof_true (raw bytes multi : Bool) (endq : List Char) (f : Nat) (s : LexSt) (buf : List Char)
    (h : s.eof = true) : (readStringBody raw bytes multi endq f s buf).eof = true := by
  cases f with
  | zero => simp [readStringBody, StrRes.eof, h]
  | succ f =>
    rw [rsb_succ]
    split
    · split <;> simp [StrRes.eof, h]
    · simp [StrRes.eof, h]
    · split <;> simp [StrRes.eof, h]

theorem rsb_ext (b : List Char) (raw bytes multi : Bool) (endq : List Char) :
    ∀ (f : Nat) (s : LexSt) (buf : List Char) (f' : Nat),
      (readStringBody raw bytes multi endq f s buf).eof = false →
      s.rest.length + 1 ≤ f → s.rest.length + b.length + 1 ≤ f' →
      readStringBody raw bytes multi endq f' (ext b s) buf = (readStringBody raw bytes multi endq f s buf).mapSt (ext b) := by
  intro f
  induction f with
  | zero => intro s buf f' _ h; omega
  | succ f ih =>
    intro s buf f' he hf hf'
    obtain ⟨f'', rfl⟩ : ∃ k, f' = k + 1 := ⟨f' - 1, by omega⟩
    rw [rsb_succ] at he ⊢
    rw [rsb_succ]
    have hline : (ext b s).line = s.line := rfl
    have heof : (ext b s).eof = s.eof := rfl
    rw [hline, heof]
    -- the recursive call, shared by the `more` and `lineEnd` branches
    have hrec : ∀ buf', (if s.eof then StrRes.bad s else readStringBody raw bytes multi endq f (refill s) buf').eof = false →
        (if s.eof then StrRes.bad (ext b s) else readStringBody raw bytes multi endq f'' (refill (ext b s)) buf') =
        (if s.eof then StrRes.bad s else readStringBody raw bytes multi endq f (refill s) buf').mapSt (ext b) := by
      intro buf' h
      cases hs : s.eof with
      | true => rw [hs] at h; simp [StrRes.eof, hs] at h
      | false =>
        rw [hs] at h
        simp only [Bool.false_eq_true, if_false] at h ⊢
        have hr : (refill s).eof = false := by
          cases hc : (refill s).eof with
          | false => rfl
          | true =>
            have := rsb_eof_true raw bytes multi endq f (refill s) buf' hc
            rw [this] at h; cases h
        have hlt := refill_rest_lt hr
        rw [refill_ext b s hr]
        exact ih (refill s) buf' f'' h (by omega) (by omega)
    revert he
    cases scanLine raw multi endq s.line false buf with
    | found buf1 restLine => intro _; dsimp only; split <;> rfl
    | more buf1 => intro he; exact hrec _ he
    | lineEnd buf1 =>
      intro he
      cases multi with
      | true => exact hrec _ he
      | false => rfl

theorem rsb_ext_line (b : List Char) (raw bytes multi : Bool) (endq : List Char) (s : LexSt) (L : List Char)
    (h : (readStringBody raw bytes multi endq (s.rest.length + 2) { s with line := L } []).eof = false) :
    readStringBody raw bytes multi endq ((ext b s).rest.length + 2) { ext b s with line := L } [] =
      (readStringBody raw bytes multi endq (s.rest.length + 2) { s with line := L } []).mapSt (ext b) := by
  have := rsb_ext b raw bytes multi endq (s.rest.length + 2) { s with line := L } [] ((ext b s).rest.length + 2) h
    (by simp) (by simp [ext])
  exact this

theorem rsf_ext (b : List Char) (s : LexSt) (raw bytes : Bool) (cut : Nat)
    (h : (readStringFound s raw bytes cut).eof = false) :
    readStringFound (ext b s) raw bytes cut = (readStringFound s raw bytes cut).mapSt (ext b) := by
  unfold readStringFound at h ⊢
  have hline : (ext b s).line = s.line := rfl
  simp only [hline] at h ⊢
  split
  · rename_i h1; simp only [h1, if_true] at h; exact rsb_ext_line b _ _ _ _ s _ h
  · rename_i h1
    split
    · rename_i h2; simp only [h1, h2, if_true, if_false] at h; exact rsb_ext_line b _ _ _ _ s _ h
    · rename_i h2
      split
      · rename_i h3; simp only [h1, h2, h3, if_true, if_false] at h; exact rsb_ext_line b _ _ _ _ s _ h
      · rename_i h3; simp only [h1, h2, h3, if_false] at h; exact rsb_ext_line b _ _ _ _ s _ h

theorem rst_ext (b : List Char) (s : LexSt) (h : (readStringTok s).eof = false) :
    readStringTok (ext b s) = (readStringTok s).mapSt (ext b) := by
  unfold readStringTok at h ⊢
  have hline : (ext b s).line = s.line := rfl
  simp only [hline] at h ⊢
  repeat' split
  all_goals first
    | rfl
    | (simp only [*, if_true, if_false] at h; exact rsf_ext b s _ _ _ h)

/-! ## one step of `Lex` -/

def extP (b : List Char) (p : LexSt × StepRes) : LexSt × StepRes := (ext b p.1, p.2)

/-- the states of `Lex` that do not touch the reader -/
theorem step_ext_pure (b : List Char) (s : LexSt)
    (hs : s.queue ≠ [] ∨ (s.state ≠ .readString ∧ s.state ≠ .parseTokens)) :
    C06.step (ext b s) = extP b (C06.step s) := by
  obtain ⟨rest, line, eof, err, stack, state, curIndent, inter, exec, bracket, paren, brace, queue⟩ := s
  cases queue with
  | cons t q => rfl
  | nil =>
    simp only [ne_eq, not_true_eq_false, false_or] at hs
    cases state with
    | readString => exact absurd rfl hs.1
    | parseTokens => exact absurd rfl hs.2
    | readIndent => rfl
    | isEof => rfl
    | checkEmpty =>
      simp only [C06.step, ext]
      repeat' (first | rfl | contradiction | (split <;> try simp only [*, ↓reduceIte]))
    | checkIndent =>
      simp only [C06.step, ext, C06.openBrackets]
      repeat' (first | rfl | contradiction | (split <;> try simp only [*, ↓reduceIte]))
    | checkEof =>
      simp only [C06.step, ext, C06.queueDedents]
      repeat' (first | rfl | contradiction | (split <;> try simp only [*, ↓reduceIte]))


theorem step_ext_pt (b : List Char) (s : LexSt) (hq : s.queue = []) (hs : s.state = .parseTokens)
    (h : (C06.step s).1.eof = false) : C06.step (ext b s) = extP b (C06.step s) := by
  have e1 : (ext b s).queue = s.queue := rfl
  have e2 : (ext b s).state = s.state := rfl
  have e3 : (ext b s).line = s.line := rfl
  have e4 : (ext b s).eof = s.eof := rfl
  have e5 : (ext b s).bracket = s.bracket := rfl
  have e6 : (ext b s).paren = s.paren := rfl
  have e7 : (ext b s).brace = s.brace := rfl
  have hob : ∀ S : LexSt, C06.openBrackets S = (S.bracket != 0 || S.paren != 0 || S.brace != 0) := fun _ => rfl
  unfold C06.step at h ⊢
  simp only [e1, e2, e3, e4, e5, e6, e7, hq, hs, hob] at h ⊢
  generalize List.dropWhile (fun c => c == ' ' || c == '\t') s.line = l at h ⊢
  cases l with
  | nil => rfl
  | cons c cs =>
    simp only at h ⊢
    by_cases c1 : (c == '\n' || c == '#') = true
    · simp only [c1, ↓reduceIte, Bool.false_eq_true] at h ⊢
      by_cases hb : (s.bracket != 0 || s.paren != 0 || s.brace != 0) = true
      · simp only [hb, ↓reduceIte]; rfl
      · simp only [hb, ↓reduceIte]; rfl
    · simp only [c1, ↓reduceIte, Bool.false_eq_true] at h ⊢
      by_cases c2 : (c == '\\' && (cs.isEmpty || cs.head? == some '\n')) = true
      · simp only [c2, ↓reduceIte, Bool.false_eq_true] at h ⊢
        cases he : s.eof with
        | true => simp only [↓reduceIte]; rfl
        | false =>
          simp only [he, ↓reduceIte, Bool.false_eq_true] at h ⊢
          have key := refill_ext b ⟨s.rest, c :: cs, false, s.err, s.stack, .parseTokens, s.curIndent, s.interactive, s.exec, s.bracket, s.paren, s.brace, []⟩ h
          generalize hX : refill _ = X at ⊢
          have hX' : X = ext b (refill ⟨s.rest, c :: cs, false, s.err, s.stack, .parseTokens, s.curIndent, s.interactive, s.exec, s.bracket, s.paren, s.brace, []⟩) := by
            rw [← hX]; exact key
          subst hX'
          rfl
      · simp only [c2, ↓reduceIte, Bool.false_eq_true] at h ⊢
        cases hn : C06.readNumber (c :: cs) with
        | bad => rfl
        | ok v r => rfl
        | notNumber =>
          simp only [hn] at h ⊢
          have key := rst_ext b ⟨s.rest, c :: cs, s.eof, s.err, s.stack, .parseTokens, s.curIndent, s.interactive, s.exec, s.bracket, s.paren, s.brace, []⟩
          cases hrt : readStringTok ⟨s.rest, c :: cs, s.eof, s.err, s.stack, .parseTokens, s.curIndent, s.interactive, s.exec, s.bracket, s.paren, s.brace, []⟩ with
          | bad s' =>
            rw [hrt] at h key
            simp only at h
            generalize hX : readStringTok _ = X at ⊢
            have hX' : X = StrRes.bad (ext b s') := by rw [← hX]; exact key h
            subst hX'
            rfl
          | ok v s' =>
            rw [hrt] at h key
            simp only at h
            generalize hX : readStringTok _ = X at ⊢
            have hX' : X = StrRes.ok v (ext b s') := by rw [← hX]; exact key h
            subst hX'
            rfl
          | notString =>
            rw [hrt] at h key
            generalize hX : readStringTok _ = X at ⊢
            have hX' : X = StrRes.notString := by rw [← hX]; exact key rfl
            subst hX'
            simp only
            clear h key hrt
            cases C06.readIdentifierOrKeyword (c :: cs) with
            | some tr => rfl
            | none =>
              simp only
              cases C06.readOperator (c :: cs) with
              | none => rfl
              | some opr =>
                obtain ⟨op, r⟩ := opr
                cases op <;> rfl


theorem step_ext_rs (b : List Char) (s : LexSt) (hq : s.queue = []) (hs : s.state = .readString)
    (h : (C06.step s).1.eof = false) : C06.step (ext b s) = extP b (C06.step s) := by
  have e1 : (ext b s).queue = s.queue := rfl
  have e2 : (ext b s).state = s.state := rfl
  unfold C06.step at h ⊢
  simp only [e1, e2, hq, hs] at h ⊢
  have hre : (refill s).eof = false := by
    cases hc : (refill s).eof with
    | false => rfl
    | true =>
      exfalso
      split at h
      · split at h <;> simp_all [C06.queueDedents]
      · simp_all
  rw [refill_ext b s hre]
  have hx : (ext b (refill s)).eof = false := hre
  simp only [hx, hre, Bool.and_false, Bool.false_eq_true, if_false]
  rfl

/-- **lockstep**: as long as lexing `a` has not reached the end of `a`, lexing `a ++ b` does exactly the same -/
theorem step_ext (b : List Char) (s : LexSt) (h : (C06.step s).1.eof = false) :
    C06.step (ext b s) = (ext b (C06.step s).1, (C06.step s).2) := by
  show _ = extP b (C06.step s)
  by_cases hq : s.queue = []
  · by_cases h1 : s.state = .readString
    · exact step_ext_rs b s hq h1 h
    · by_cases h2 : s.state = .parseTokens
      · exact step_ext_pt b s hq h2 h
      · exact step_ext_pure b s (Or.inr ⟨h1, h2⟩)
  · exact step_ext_pure b s (Or.inl hq)

/-! ## the `eof` flag never falls back -/

theorem rsf_eof_true (s : LexSt) (raw bytes : Bool) (cut : Nat) (h : s.eof = true) :
    (readStringFound s raw bytes cut).eof = true := by
  unfold readStringFound
  dsimp only
  repeat' split
  all_goals exact rsb_eof_true _ _ _ _ _ _ _ h

theorem rst_eof_true (s : LexSt) (h : s.eof = true) :
    (readStringTok s).eof = true ∨ readStringTok s = .notString := by
  unfold readStringTok
  dsimp only
  repeat' split
  all_goals first
    | (right; rfl)
    | (left; exact rsf_eof_true _ _ _ _ h)

theorem step_eof_mono (s : LexSt) (h : s.eof = true) : (C06.step s).1.eof = true := by
  unfold C06.step
  cases hq : s.queue with
  | cons t q => exact h
  | nil =>
    simp only
    cases hs : s.state with
    | readString =>
      simp only
      have := refill_eof_mono h
      repeat' split
      all_goals first | exact this | (simp [C06.queueDedents, this]; done)
    | readIndent => exact h
    | checkEmpty => simp only; split <;> exact h
    | checkIndent =>
      simp only
      repeat' split
      all_goals exact h
    | parseTokens =>
      simp only
      split
      · exact h
      · split
        · split <;> exact h
        · split
          · simp only [h, if_true]
          · split
            · exact h
            · exact h
            · have hr := rst_eof_true ⟨s.rest, List.dropWhile (fun c => c == ' ' || c == '\t') s.line, s.eof, s.err, s.stack, .parseTokens, s.curIndent, s.interactive, s.exec, s.bracket, s.paren, s.brace, []⟩ h
              split
              · rename_i s' heq
                rcases hr with hr | hr
                · rw [heq] at hr; exact hr
                · rw [heq] at hr; cases hr
              · rename_i v s' heq
                rcases hr with hr | hr
                · rw [heq] at hr; exact hr
                · rw [heq] at hr; cases hr
              · repeat' split
                all_goals exact h
    | checkEof =>
      simp only
      repeat' split
      all_goals first | exact h | (simp [C06.queueDedents, h]; done)
    | isEof => exact h


/-! ## whole runs -/

def AllTrue (l : List (Tok × Bool)) : Prop := ∀ p ∈ l, p.2 = true

theorem allTrue_nil : AllTrue [] := fun p hp => by cases hp

theorem runE_succ (f : Nat) (s : LexSt) (out : List (Tok × Bool)) :
    runE (f + 1) s out =
      match C06.step s with
      | (s', .cont) => runE f s' out
      | (s', .emit t) => runE f s' ((t, s'.eof) :: out)
      | (s', .stop) => (s', out, true) := rfl

theorem runE_extends : ∀ (f : Nat) (s : LexSt) (out : List (Tok × Bool)), ∃ more, (runE f s out).2.1 = more ++ out := by
  intro f
  induction f with
  | zero => intro s out; exact ⟨[], rfl⟩
  | succ f ih =>
    intro s out
    rw [runE_succ]
    split
    · exact ih _ _
    · rename_i s' t _
      obtain ⟨m, hm⟩ := ih s' ((t, s'.eof) :: out)
      exact ⟨m ++ [(t, s'.eof)], by rw [hm]; simp⟩
    · exact ⟨[], rfl⟩

theorem runE_all_true : ∀ (f : Nat) (s : LexSt) (out : List (Tok × Bool)), s.eof = true →
    ∃ post, (runE f s out).2.1 = post ++ out ∧ AllTrue post ∧ (runE f s out).1.eof = true := by
  intro f
  induction f with
  | zero => intro s out h; exact ⟨[], rfl, allTrue_nil, h⟩
  | succ f ih =>
    intro s out h
    have hm := step_eof_mono s h
    rw [runE_succ]
    split
    · rename_i s' heq; rw [heq] at hm; exact ih _ _ hm
    · rename_i s' t heq
      rw [heq] at hm
      obtain ⟨post, h1, h2, h3⟩ := ih s' ((t, s'.eof) :: out) hm
      refine ⟨post ++ [(t, s'.eof)], by rw [h1]; simp, ?_, h3⟩
      intro p hp
      rcases List.mem_append.mp hp with hp | hp
      · exact h2 p hp
      · simp at hp; subst hp; exact hm
    · rename_i s' heq; rw [heq] at hm; exact ⟨[], rfl, allTrue_nil, hm⟩

theorem runE_stopped_mono : ∀ (f k : Nat) (s : LexSt) (out : List (Tok × Bool)) (s' : LexSt) (o : List (Tok × Bool)),
    runE f s out = (s', o, true) → runE (f + k) s out = (s', o, true) := by
  intro f
  induction f with
  | zero => intro k s out s' o h; simp [runE] at h
  | succ f ih =>
    intro k s out s' o h
    have : f + 1 + k = (f + k) + 1 := by omega
    rw [this, runE_succ]
    rw [runE_succ] at h
    split at h
    · rename_i s1 heq; try simp only [heq]
      exact ih k _ _ _ _ h
    · rename_i s1 t heq; try simp only [heq]
      exact ih k _ _ _ _ h
    · rename_i s1 heq; try simp only [heq]
      exact h

theorem runE_fuel_extends : ∀ (f k : Nat) (s : LexSt) (out : List (Tok × Bool)),
    ∃ more, (runE (f + k) s out).2.1 = more ++ (runE f s out).2.1 := by
  intro f
  induction f with
  | zero => intro k s out; simpa [runE] using runE_extends k s out
  | succ f ih =>
    intro k s out
    have : f + 1 + k = (f + k) + 1 := by omega
    rw [this, runE_succ, runE_succ]
    split
    · exact ih k _ _
    · exact ih k _ _
    · exact ⟨[], rfl⟩

/-- **simulation**: the tokens the lexer hands over for `a` before it reaches the end of `a` (`X`) are also handed
over, in the same order, for `a ++ b`; whatever `a` yields afterwards carries the flag `eof` -/
theorem sim (b : List Char) : ∀ (f : Nat) (s : LexSt) (out : List (Tok × Bool)),
    ∃ X post more pre, (runE f s out).2.1 = post ++ X ∧ AllTrue post ∧ (runE f (ext b s) out).2.1 = more ++ X ∧ X = pre ++ out ∧
      ((runE f s out).1.eof = false →
        post = [] ∧ more = [] ∧ runE f (ext b s) out = (ext b (runE f s out).1, (runE f s out).2.1, (runE f s out).2.2)) := by
  intro f
  induction f with
  | zero => intro s out; exact ⟨out, [], [], [], rfl, allTrue_nil, rfl, rfl, fun _ => ⟨rfl, rfl, rfl⟩⟩
  | succ f ih =>
    intro s out
    cases he : (C06.step s).1.eof with
    | false =>
      have hx := step_ext b s he
      rw [runE_succ, runE_succ, hx]
      cases hstep : C06.step s with
      | mk s' r =>
        cases r with
        | cont => simpa using ih s' out
        | emit t =>
          obtain ⟨X, post, more, pre, h1, h2, h3, h4, h5⟩ := ih s' ((t, s'.eof) :: out)
          refine ⟨X, post, more, pre ++ [(t, s'.eof)], h1, h2, h3, by rw [h4]; simp, h5⟩
        | stop => exact ⟨out, [], [], [], rfl, allTrue_nil, rfl, rfl, fun _ => ⟨rfl, rfl, rfl⟩⟩
    | true =>
      obtain ⟨more, hmore⟩ := runE_extends (f + 1) (ext b s) out
      rw [runE_succ]
      cases hstep : C06.step s with
      | mk s' r =>
        rw [hstep] at he
        simp only at he
        cases r with
        | cont =>
          obtain ⟨post, h1, h2, h3⟩ := runE_all_true f s' out he
          exact ⟨out, post, more, [], h1, h2, hmore, rfl, fun h => by simp only at h; rw [h3] at h; cases h⟩
        | emit t =>
          obtain ⟨post, h1, h2, h3⟩ := runE_all_true f s' ((t, s'.eof) :: out) he
          refine ⟨out, post ++ [(t, s'.eof)], more, [], by simp only; rw [h1]; simp, ?_, hmore, rfl,
            fun h => by simp only at h; rw [h3] at h; cases h⟩
          intro p hp
          rcases List.mem_append.mp hp with hp | hp
          · exact h2 p hp
          · simp at hp; subst hp; exact he
        | stop =>
          exact ⟨out, [], more, [], rfl, allTrue_nil, hmore, rfl, fun h => by simp only at h; rw [he] at h; cases h⟩

/-! ## the pipeline on a prefix of an accepted text -/

variable {Code : Type}

theorem fv_append (G : Grammar Code) : ∀ (xs ys : List (Tok × Bool)) (seen : List Tok),
    firstVerdict G seen (xs ++ ys) =
      match firstVerdict G seen xs with
      | some v => some v
      | none => firstVerdict G (seen ++ xs.map Prod.fst) ys := by
  intro xs
  induction xs with
  | nil => intro ys seen; simp [firstVerdict]
  | cons x xs ih =>
    intro ys seen
    obtain ⟨t, fl⟩ := x
    simp only [List.cons_append, firstVerdict, List.map_cons]
    cases G.status (seen ++ [t]) with
    | more => simp only; rw [ih]; simp [List.append_assoc]
    | done r => rfl
    | dead e => rfl

theorem fv_all_true (G : Grammar Code) : ∀ (ys : List (Tok × Bool)) (seen : List Tok) (v : PStat Code) (fl : Bool),
    AllTrue ys → firstVerdict G seen ys = some (v, fl) → fl = true := by
  intro ys
  induction ys with
  | nil => intro seen v fl _ h; simp [firstVerdict] at h
  | cons y ys ih =>
    intro seen v fl ha h
    obtain ⟨t, f0⟩ := y
    have hf0 : f0 = true := ha (t, f0) (by simp)
    have ha' : AllTrue ys := fun p hp => ha p (by simp [hp])
    simp only [firstVerdict] at h
    cases hs : G.status (seen ++ [t]) with
    | more => rw [hs] at h; exact ih _ _ _ ha' h
    | done r => rw [hs] at h; simp at h; rw [← h.2]; exact hf0
    | dead e => rw [hs] at h; simp at h; rw [← h.2]; exact hf0

theorem allTrue_reverse {l : List (Tok × Bool)} (h : AllTrue l) : AllTrue l.reverse :=
  fun p hp => h p (List.mem_reverse.mp hp)

theorem lexFuel_mono (a b : List Char) : ∃ k, C06.lexFuel (a ++ b) = C06.lexFuel a + k :=
  ⟨8 * b.length, by simp [C06.lexFuel]; omega⟩

theorem initLex_ext (a b : List Char) : C06.initLex (a ++ b) .single = ext b (C06.initLex a .single) := rfl

/-- what the pipeline answers for a text `a` that is the beginning (up to a line end) of a text `a ++ b` it accepts:
either the parser already returns within the tokens `a` yields before its end is reached – then `a` is compiled
to the same code and the rest is never looked at – or every verdict on `a` is reached on a token handed over at
the end of the input, and a lexer error, if any, is raised at the end of the input. -/
theorem prefix_of_accepted (G : Grammar Code) (a b : String) (c : Code)
    (hab : compileM G (a ++ b) = .ok c) (hnl : a.toList.getLast? = some '\n') (hstop : lexStops a = true) :
    compileM G a = .ok c ∨
    ((∀ v fl, firstVerdict G [] (toksOf a) = some (v, fl) → fl = true) ∧
     ((lexSingle a.toList).1.err = true → (lexSingle a.toList).1.eof = true)) := by
  obtain ⟨k, hk⟩ := lexFuel_mono a.toList b.toList
  obtain ⟨X, post, more, pre, h1, h2, h3, h4, h5⟩ := sim b.toList (C06.lexFuel a.toList) (C06.initLex a.toList .single) []
  obtain ⟨more', h6⟩ := runE_fuel_extends (C06.lexFuel a.toList) k (ext b.toList (C06.initLex a.toList .single)) []
  -- the run on `a ++ b`
  have hT : lexSingle (a ++ b).toList = runE (C06.lexFuel a.toList + k) (ext b.toList (C06.initLex a.toList .single)) [] := by
    simp only [lexSingle, String.toList_append, hk, initLex_ext]
  have hA : lexSingle a.toList = runE (C06.lexFuel a.toList) (C06.initLex a.toList .single) [] := rfl
  simp only [lexStops, hA] at hstop
  -- unfold the accepted compile
  unfold compileM at hab
  simp only at hab
  split at hab
  · cases hab
  · rw [hT] at hab
    split at hab
    · cases hab
    · rename_i st outT hrunT
      have houtT : outT = more' ++ (more ++ X) := by
        have := h6; rw [hrunT] at this; simp only at this; rw [this, h3]
      have hrev : outT.reverse = X.reverse ++ (more' ++ more).reverse := by
        rw [houtT]; simp [List.reverse_append, List.append_assoc]
      have hta : toksOf a = X.reverse ++ post.reverse := by
        simp only [toksOf, hA, h1, List.reverse_append]
      cases hX : firstVerdict G [] X.reverse with
      | some v =>
        -- the parser's verdict falls inside the common tokens
        left
        have hvt : firstVerdict G [] outT.reverse = some v := by rw [hrev, fv_append, hX]
        rw [hvt] at hab
        simp only at hab
        unfold compileM
        simp only
        rw [if_neg (by simpa using hnl)]
        rw [hA]
        cases hra : runE (C06.lexFuel a.toList) (C06.initLex a.toList .single) [] with
        | mk sa rest =>
          obtain ⟨oa, ba⟩ := rest
          rw [hra] at hstop h1
          simp only at hstop h1
          subst hstop
          simp only
          have : firstVerdict G [] oa.reverse = some v := by
            rw [h1]; simp only [List.reverse_append]; rw [fv_append, hX]
          rw [this]
          exact hab
      | none =>
        right
        constructor
        · intro v fl hv
          rw [hta, fv_append, hX] at hv
          exact fv_all_true G _ _ v fl (allTrue_reverse h2) hv
        · intro herr
          rw [hA] at herr ⊢
          cases he : (runE (C06.lexFuel a.toList) (C06.initLex a.toList .single) []).1.eof with
          | true => rfl
          | false =>
            exfalso
            obtain ⟨hp, hm, hrun⟩ := h5 he
            have hrun' := runE_stopped_mono (C06.lexFuel a.toList) k _ _ _ _ (by rw [hrun, hstop])
            rw [hrun'] at hrunT
            simp only [Prod.mk.injEq] at hrunT
            obtain ⟨hst, hout, _⟩ := hrunT
            subst hp hm
            have hvt : firstVerdict G [] outT.reverse = none := by
              rw [← hout, h1]; simpa using hX
            rw [hvt] at hab
            simp only at hab
            have : st.err = true := by rw [← hst]; exact herr
            rw [this] at hab
            simp at hab

theorem compileM_eq (G : Grammar Code) (a : String) (hnl : a.toList.getLast? = some '\n') (hstop : lexStops a = true) :
    compileM G a =
      match firstVerdict G [] (toksOf a) with
      | some v => verdictResult v
      | none =>
        if (lexSingle a.toList).1.err then .error { msg := if (lexSingle a.toList).1.eof then eofMsg else lexErrMsg }
        else .error { msg := eofMsg } := by
  unfold compileM toksOf
  simp only
  rw [if_neg (by simpa using hnl)]
  simp only [lexStops] at hstop
  cases hra : lexSingle a.toList with
  | mk sa rest =>
    obtain ⟨oa, ba⟩ := rest
    rw [hra] at hstop
    simp only at hstop
    subst hstop
    rfl

theorem needsMore_eofMsg : needsMoreInput { msg := eofMsg } = true := by decide
theorem needsMore_lexErrMsg : needsMoreInput { msg := lexErrMsg } = false := by decide

/-- **incomplete_iff_prefix.**  For a text `a` (ending in a newline) that is the beginning of a text `a ++ b` the
pipeline compiles: the pipeline asks for more input on `a` ("unexpected EOF while parsing" / "EOF while scanning
triple-quoted string literal") EXACTLY when the parser gives no verdict of its own on the tokens of `a`, i.e. when `a`
is – at token level – a proper prefix of a statement and not itself a statement.  In particular no syntax error is
ever reported for such an `a` by the lexer or by the parser automaton. -/
theorem incomplete_iff_prefix_lemma (G : Grammar Code) (a b : String) (c : Code)
    (hab : compileM G (a ++ b) = .ok c) (hnl : a.toList.getLast? = some '\n') (hstop : lexStops a = true) :
    isIncomplete (compileM G a) = true ↔ parserWaiting G a = true := by
  have heq := compileM_eq G a hnl hstop
  rcases prefix_of_accepted G a b c hab hnl hstop with hA | ⟨hfl, herr⟩
  · -- accepted within the common tokens
    rw [hA]
    rw [hA] at heq
    unfold parserWaiting
    cases hv : firstVerdict G [] (toksOf a) with
    | none =>
      rw [hv] at heq; simp only at heq
      split at heq <;> cases heq
    | some v =>
      rw [hv] at heq; simp only at heq
      obtain ⟨st, fl⟩ := v
      cases st with
      | more => simp [verdictResult] at heq
      | done r => simp only [verdictResult] at heq; subst heq; simp [isIncomplete]
      | dead e => cases e <;> simp [verdictResult] at heq
  · rw [heq]
    unfold parserWaiting
    cases hv : firstVerdict G [] (toksOf a) with
    | none =>
      simp only
      cases he : (lexSingle a.toList).1.err with
      | false => simp [isIncomplete, needsMore_eofMsg]
      | true => simp [isIncomplete, herr he, needsMore_eofMsg]
    | some v =>
      obtain ⟨st, fl⟩ := v
      have hfl' : fl = true := hfl st fl hv
      subst hfl'
      cases st with
      | more => simp [verdictResult, isIncomplete, needsMore_lexErrMsg]
      | done r => cases r <;> simp [verdictResult, isIncomplete]
      | dead e => cases e <;> simp [verdictResult, isIncomplete, needsMore_eofMsg]


end GPy.C20
