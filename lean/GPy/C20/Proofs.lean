/-
C20 – helper lemmas: source-text algebra, single steps of the REPL, one statement, one item.
-/
import GPy.C20.Spec
namespace GPy.C20

/-! ## texts -/

theorem text_append_single (xs : List String) (l : String) : text (xs ++ [l]) = text xs ++ l ++ "\n" := by
  induction xs with
  | nil => simp [text]
  | cons x xs ih => simp [text, ih, String.append_assoc]

theorem nl_length : ("\n" : String).length = 1 := by decide

theorem text_ne_empty {xs : List String} (h : xs ≠ []) : text xs ≠ "" := by
  cases xs with
  | nil => exact absurd rfl h
  | cons x xs =>
    intro he
    have := congrArg String.length he
    simp [text, String.length_append, nl_length] at this

theorem append_ne_empty_left {a b : String} (h : a ≠ "") : a ++ b ≠ "" := by
  intro he
  have h1 := congrArg String.length he
  simp [String.length_append] at h1
  exact h h1.1

theorem dropWhile_head_append {α} (p : α → Bool) (a b : List α) (c : α)
    (h : (a.dropWhile p).head? = some c) : ((a ++ b).dropWhile p).head? = some c := by
  induction a with
  | nil => simp at h
  | cons x xs ih =>
    simp only [List.cons_append, List.dropWhile_cons] at h ⊢
    split
    · rename_i hp; rw [if_pos hp] at h; exact ih h
    · rename_i hp; rw [if_neg hp] at h; simpa using h

theorem isBlankOrComment_append {l : String} (x : String) (h : isBlankOrComment l = false) :
    isBlankOrComment (l ++ x) = false := by
  unfold isBlankOrComment at h ⊢
  cases hf : firstNonSpace l with
  | none => simp [hf] at h
  | some c =>
    have : firstNonSpace (l ++ x) = some c := by
      unfold firstNonSpace at hf ⊢
      rw [String.toList_append]
      exact dropWhile_head_append _ _ _ _ hf
    simp [hf] at h
    simp [this, h]

theorem isBlankOrComment_text_cons {l : String} (rest : List String) (h : isBlankOrComment l = false) :
    isBlankOrComment (text (l :: rest)) = false := by
  simp only [text, String.append_assoc]
  exact isBlankOrComment_append _ h

theorem not_blank_ne_empty {l : String} (h : isBlankOrComment l = false) : l ≠ "" := by
  intro he; subst he
  simp [isBlankOrComment, firstNonSpace] at h

/-! ## single steps of `REPL.Run` -/

variable (W : World)

/-- in continuation mode a non-empty line is only accumulated -/
theorem step_accumulate (prev prompt : String) (ns : W.NS) (line : String) (hl : line ≠ "") :
    step W ⟨true, prev, prompt, ns⟩ line = (⟨true, prev ++ line ++ "\n", prompt, ns⟩, []) := by
  simp [step, hl]

/-- an empty line at the primary prompt does nothing -/
theorem step_empty (prompt : String) (ns : W.NS) :
    step W ⟨false, "", prompt, ns⟩ "" = (⟨false, "", prompt, ns⟩, []) := by
  simp [step]

/-- the compile step: taken at the primary prompt, or in continuation mode on an empty line -/
theorem step_compile (cont : Bool) (prev prompt : String) (ns : W.NS) (line : String)
    (h : cont = false ∨ line = "") (hne : prev ++ line ≠ "") :
    step W ⟨cont, prev, prompt, ns⟩ line =
      match W.compile (prev ++ line ++ "\n") with
      | .error e =>
        if needsMoreInput e then
          if isBlankOrComment (prev ++ line) then (⟨cont, prev, prompt, ns⟩, [])
          else (⟨true, prev ++ line ++ "\n", ContinuationPrompt, ns⟩, [.setPrompt ContinuationPrompt])
        else (⟨false, "", NormalPrompt, ns⟩, [.setPrompt NormalPrompt, .print ("Compile error: " ++ errText e)])
      | .ok code =>
        (⟨false, "", NormalPrompt, (W.run code ns).1⟩, [.setPrompt NormalPrompt, .exec (prev ++ line ++ "\n") (W.run code ns).2]) := by
  have h1 : (cont && line != "") = false := by
    rcases h with h | h <;> simp [h]
  simp only [step, h1]
  simp [hne]
  cases W.compile (prev ++ line ++ "\n") <;> simp

/-- result of the compile step when the oracle asks for more input and the text is no comment -/
theorem step_incomplete (cont : Bool) (prev prompt : String) (ns : W.NS) (line : String)
    (h : cont = false ∨ line = "") (hne : prev ++ line ≠ "")
    (hi : isIncomplete (W.compile (prev ++ line ++ "\n")) = true) (hb : isBlankOrComment (prev ++ line) = false) :
    step W ⟨cont, prev, prompt, ns⟩ line =
      (⟨true, prev ++ line ++ "\n", ContinuationPrompt, ns⟩, [.setPrompt ContinuationPrompt]) := by
  rw [step_compile W cont prev prompt ns line h hne]
  cases hc : W.compile (prev ++ line ++ "\n") with
  | ok c => simp [hc, isIncomplete] at hi
  | error e => simp [hc, isIncomplete] at hi; simp [hi, hb]

/-- result of the compile step when the oracle delivers the final verdict on a statement -/
theorem step_finish (cont : Bool) (prev prompt : String) (ns : W.NS) (line : String)
    (h : cont = false ∨ line = "") (hne : prev ++ line ≠ "")
    (s : Entry W.Code) (hfinal : ∀ e, s.res = .synErr e → needsMoreInput e = false)
    (hc : W.compile (prev ++ line ++ "\n") = s.res.toC) (hsrc : prev ++ line ++ "\n" = text s.fed) :
    step W ⟨cont, prev, prompt, ns⟩ line =
      (⟨false, "", NormalPrompt, (specFinish W ns s).1⟩, [.setPrompt NormalPrompt, (specFinish W ns s).2]) := by
  rw [step_compile W cont prev prompt ns line h hne, hc]
  cases hr : s.res with
  | code c => simp [Res.toC, specFinish, hr, hsrc]
  | synErr e => simp [Res.toC, specFinish, hr, hfinal e hr]

/-! ## one statement -/

theorem specFinish_notPrompt (ns : W.NS) (s : Entry W.Code) : notPrompt (specFinish W ns s).2 = true := by
  unfold specFinish; cases s.res <;> simp [notPrompt]

theorem filter_finish (p : String) (ns : W.NS) (s : Entry W.Code) :
    List.filter notPrompt [Action.setPrompt p, (specFinish W ns s).2] = [(specFinish W ns s).2] := by
  have h := specFinish_notPrompt W ns s
  have h0 : notPrompt (Action.setPrompt p) = false := rfl
  simp only [List.filter_cons, h, h0, List.filter_nil, if_true]
  simp

theorem runLines_cons (s : ReplState W.NS) (l : String) (ls : List String) :
    runLines W s (l :: ls) = ((runLines W (stepObs W s l).1 ls).1, (stepObs W s l).2 :: (runLines W (stepObs W s l).1 ls).2) := rfl

theorem runLines_append (s : ReplState W.NS) (xs ys : List String) :
    runLines W s (xs ++ ys) =
      ((runLines W (runLines W s xs).1 ys).1, (runLines W s xs).2 ++ (runLines W (runLines W s xs).1 ys).2) := by
  induction xs generalizing s with
  | nil => simp [runLines]
  | cons x xs ih => simp [runLines_cons, ih]

/-- after the first line of a multi-line statement: the remaining lines are accumulated (an empty line
inside re-compiles and continues), the terminating empty line compiles the whole text and finishes -/
theorem run_rest (s : Entry W.Code) (ok : EntryOK W s) (hmulti : 1 < s.lines.length) (ns : W.NS) :
    ∀ (rest done : List String), done ≠ [] → s.lines = done ++ rest →
      runLines W ⟨true, text done, ContinuationPrompt, ns⟩ (rest ++ [""]) =
        (⟨false, "", NormalPrompt, (specFinish W ns s).1⟩,
         List.replicate rest.length ⟨ContinuationPrompt, []⟩ ++ [⟨NormalPrompt, [(specFinish W ns s).2]⟩]) := by
  obtain ⟨l0, rest0, hl0, hnb⟩ := ok.first
  -- every non-empty prefix of the statement's lines starts with its first line
  have hprefix : ∀ done rest, done ≠ [] → s.lines = done ++ rest → isBlankOrComment (text done) = false := by
    intro done rest hd hs
    cases done with
    | nil => exact absurd rfl hd
    | cons d ds =>
      rw [hl0] at hs
      simp only [List.cons_append, List.cons.injEq] at hs
      rw [← hs.1]
      exact isBlankOrComment_text_cons _ hnb
  intro rest
  induction rest with
  | nil =>
    intro done hd hs
    simp only [List.append_nil] at hs
    have hfed : s.fed = s.lines ++ [""] := by
      unfold Entry.fed; rw [if_neg (by omega)]
    have hne : text done ++ "" ≠ "" := by simpa using text_ne_empty hd
    have hc : W.compile (text done ++ "" ++ "\n") = s.res.toC := by
      rw [← text_append_single, ← hs, ← hfed]; exact ok.complete
    have hstep := step_finish W true (text done) ContinuationPrompt ns "" (Or.inr rfl) hne s ok.final hc (by rw [← text_append_single, ← hs, ← hfed])
    simp [runLines, stepObs, hstep, filter_finish]
  | cons l rest ih =>
    intro done hd hs
    have hs' : s.lines = (done ++ [l]) ++ rest := by simp [hs]
    have hd' : done ++ [l] ≠ [] := by simp
    by_cases hl : l = ""
    · -- an empty line inside the statement
      subst hl
      have hne : text done ++ "" ≠ "" := by simpa using text_ne_empty hd
      have hi : isIncomplete (W.compile (text done ++ "" ++ "\n")) = true := by
        rw [← text_append_single]; exact ok.blank_incomplete done rest hd hs
      have hb : isBlankOrComment (text done ++ "") = false := by
        simpa using hprefix done ("" :: rest) hd hs
      have hstep := step_incomplete W true (text done) ContinuationPrompt ns "" (Or.inr rfl) hne hi hb
      rw [← text_append_single] at hstep
      have := ih (done ++ [""]) hd' hs'
      simp [runLines_cons, stepObs, hstep, notPrompt, this, List.replicate_succ]
    · have hstep := step_accumulate W (text done) ContinuationPrompt ns l hl
      rw [← text_append_single] at hstep
      have := ih (done ++ [l]) hd' hs'
      simp [runLines_cons, stepObs, hstep, this, List.replicate_succ]

/-- one statement, from the primary prompt -/
theorem run_entry (s : Entry W.Code) (ok : EntryOK W s) (ns : W.NS) :
    runLines W ⟨false, "", NormalPrompt, ns⟩ s.fed =
      (⟨false, "", NormalPrompt, (specFinish W ns s).1⟩,
       List.replicate (s.fed.length - 1) ⟨ContinuationPrompt, []⟩ ++ [⟨NormalPrompt, [(specFinish W ns s).2]⟩]) := by
  obtain ⟨l0, rest0, hl0, hnb⟩ := ok.first
  have hl0ne : l0 ≠ "" := not_blank_ne_empty hnb
  cases rest0 with
  | nil =>
    -- a one-line statement is compiled and finished at once
    have hfed : s.fed = [l0] := by unfold Entry.fed; simp [hl0]
    have hc : W.compile ("" ++ l0 ++ "\n") = s.res.toC := by
      have := ok.complete; rw [hfed] at this; simpa [text] using this
    have hstep := step_finish W false "" NormalPrompt ns l0 (Or.inl rfl) (by simpa using hl0ne) s ok.final hc (by simp [hfed, text])
    rw [hfed]
    simp [runLines, stepObs, hstep, filter_finish]
  | cons l1 rest1 =>
    have hmulti : 1 < s.lines.length := by simp [hl0]
    have hfed : s.fed = l0 :: ((l1 :: rest1) ++ [""]) := by
      unfold Entry.fed; rw [if_neg (by omega)]; simp [hl0]
    have hi : isIncomplete (W.compile ("" ++ l0 ++ "\n")) = true := by
      have := ok.first_incomplete l0 (l1 :: rest1) hl0 (by simp); simpa [text] using this
    have hstep := step_incomplete W false "" NormalPrompt ns l0 (Or.inl rfl) (by simpa using hl0ne) hi (by simpa using hnb)
    have hrest := run_rest W s ok hmulti ns (l1 :: rest1) [l0] (by simp) (by simp [hl0])
    have ht : text [l0] = "" ++ l0 ++ "\n" := by simp [text]
    rw [ht] at hrest
    simp only [String.empty_append, List.cons_append] at hstep hrest
    rw [hfed, runLines_cons]
    simp [stepObs, hstep, notPrompt, hrest, List.replicate_succ]

/-- one item, from the primary prompt -/
theorem run_item (it : Item W.Code) (ok : ItemOK W it) (ns : W.NS) :
    runLines W ⟨false, "", NormalPrompt, ns⟩ it.fed =
      (⟨false, "", NormalPrompt, (specItem W ns it).1⟩, (specItem W ns it).2) := by
  cases it with
  | stmt s => simpa [Item.fed, specItem] using run_entry W s ok ns
  | skip l =>
    simp only [ItemOK] at ok
    rcases ok with rfl | ⟨hb, hi⟩
    · simp [Item.fed, specItem, runLines, stepObs, step_empty]
    · by_cases hl : l = ""
      · subst hl; simp [Item.fed, specItem, runLines, stepObs, step_empty]
      · have hne : "" ++ l ≠ "" := by simpa using hl
        have hstep := step_compile W false "" NormalPrompt ns l (Or.inl rfl) hne
        simp only [String.empty_append] at hstep
        have ht : text [l] = l ++ "\n" := by simp [text]
        rw [ht] at hi
        cases hc : W.compile (l ++ "\n") with
        | ok c => rw [hc] at hi; simp [isIncomplete] at hi
        | error e =>
          rw [hc] at hi hstep
          simp only [isIncomplete] at hi
          simp only [hi, hb, if_true] at hstep
          simp [Item.fed, specItem, runLines, stepObs, hstep, notPrompt]

/-! ## executions, lengths, known-finding exclusions -/

theorem execs_append (a b : List LineObs) : execs (a ++ b) = execs a ++ execs b := by
  simp [execs]

theorem execs_replicate (n : Nat) (p : String) : execs (List.replicate n ⟨p, []⟩) = [] := by
  induction n with
  | zero => simp [execs]
  | succ n ih => simp [List.replicate_succ, execs] at ih ⊢

theorem execs_specTrace (prog : List (Item W.Code)) (ns : W.NS) :
    execs (specTrace W ns prog).2 = validSrcs prog := by
  induction prog generalizing ns with
  | nil => simp [specTrace, execs, validSrcs]
  | cons it rest ih =>
    simp only [specTrace, execs_append, ih]
    cases it with
    | skip l => simp [specItem, execs, validSrcs]
    | stmt s =>
      simp only [specItem, execs_append, execs_replicate]
      cases hr : s.res <;> simp [specFinish, hr, execs, validSrcs]

theorem specItem_length (it : Item W.Code) (ok : ItemOK W it) (ns : W.NS) :
    (specItem W ns it).2.length = it.fed.length := by
  cases it with
  | skip l => simp [specItem, Item.fed]
  | stmt s =>
    obtain ⟨l0, rest0, hl0, _⟩ := (ok : EntryOK W s).first
    have : 1 ≤ s.fed.length := by
      unfold Entry.fed; split <;> simp [hl0]
    simp [specItem, Item.fed]; omega

theorem specTrace_length (prog : List (Item W.Code)) (hc : Contract W prog) (ns : W.NS) :
    (specTrace W ns prog).2.length = (feed prog).length := by
  induction prog generalizing ns with
  | nil => simp [specTrace, feed]
  | cons it rest ih =>
    have hit : ItemOK W it := hc it (by simp)
    have hrest : Contract W rest := fun x hx => hc x (by simp [hx])
    simp [specTrace, feed, specItem_length W it hit, ih hrest] at *

theorem specTrace_append (pre post : List (Item W.Code)) (ns : W.NS) :
    specTrace W ns (pre ++ post) =
      ((specTrace W (specTrace W ns pre).1 post).1, (specTrace W ns pre).2 ++ (specTrace W (specTrace W ns pre).1 post).2) := by
  induction pre generalizing ns with
  | nil => simp [specTrace]
  | cons it rest ih => simp [specTrace, ih]

/-- the contract excludes exactly the known findings: for a multi-line statement, "the first line
alone needs more input" ⟺ it is neither accepted (K01) nor rejected (K02) -/
theorem first_incomplete_iff_not_kf (s : Entry W.Code) (l l' : String) (rest : List String) (hl : s.lines = l :: l' :: rest) :
    isIncomplete (W.compile (text [l])) = true ↔ (kfPrefixAccepted W s = false ∧ kfPrefixRejected W s = false) := by
  unfold kfPrefixAccepted kfPrefixRejected isIncomplete
  rw [hl]
  cases hcm : W.compile (text [l]) <;> simp [hcm]

theorem EntryOKPartial.toOK {s : Entry W.Code} (h : EntryOKPartial W s) : EntryOK W s where
  first := h.first
  final := h.final
  complete := h.complete
  blank_incomplete := h.blank_incomplete
  first_incomplete := by
    intro l rest hl hr
    cases rest with
    | nil => exact absurd rfl hr
    | cons l' rest => exact (first_incomplete_iff_not_kf W s l l' rest hl).mpr ⟨h.not_K01, h.not_K02⟩


end GPy.C20
