/-
C20 property theorems: feeding a program to the interactive interpreter one physical line at a
time is equivalent to executing its statements one by one.

All theorems quantify over EVERY world `W` (compile oracle + execution function), every program
(list of statements, each any list of physical lines, and skipped lines) and every start namespace.
The REPL theorems are relative to the oracle `Contract` of Spec.lean (what `py.Compile` in single
mode must answer for the texts the REPL hands it); the contract is tied to the real pipeline by
the `O` cases of the correspondence run.  Where the real pipeline breaks the contract the
statements are delimited by the known-finding predicates `kfPrefixAccepted` (C20-K01) and
`kfPrefixRejected` (C20-K02): `repl_equiv_partial` states the excluded hypotheses explicitly and
the `_witness` theorems show the model really departs from the spec there.

Second round: for VALID statements the oracle is replaced by the pipeline model of Pipe.lean (the C06 lexer model in
single mode + `ErrorReturn`'s eof rule + the yacc parser as an online machine `Grammar.status`): `incomplete_iff_prefix`
and the lexer theorems `lexer_lockstep` / `lexer_eof_monotone` / `lexer_prefix_tokens` are proved for EVERY text and EVERY
parser, and `repl_equiv_modelled` no longer assumes what the pipeline answers on partial input.  C20-K02 is repaired
(fix d93e0e4); C20-K01 remains (see `repl_equiv_K01_witness`).
-/
import GPy.C20.Modelled
namespace GPy.C20
open GPy.C06 (Tok LexSt)

variable (W : World)

/-! ## repl_equiv -/

/-- **repl_equiv.**  Folding `REPL.Run` over the physical lines of any program yields, line by line,
exactly the specified observations: nothing but the continuation prompt while a statement is being
entered, and at its last line (the terminating empty line of a multi-line statement) the statement's
execution in the session namespace with its echoes / error report – or the compile error.
Afterwards the REPL is at the primary prompt with nothing pending and the namespace the spec gives. -/
theorem repl_equiv (prog : List (Item W.Code)) (hc : Contract W prog) (ns : W.NS) :
    runLines W (ready ns) (feed prog) = (ready (specTrace W ns prog).1, (specTrace W ns prog).2) := by
  induction prog generalizing ns with
  | nil => simp [feed, runLines, specTrace]
  | cons it rest ih =>
    have hit : ItemOK W it := hc it (by simp)
    have hrest : Contract W rest := fun x hx => hc x (by simp [hx])
    have h1 := run_item W it hit ns
    have h2 := ih hrest (specItem W ns it).1
    have hf : feed (it :: rest) = it.fed ++ feed rest := by simp [feed]
    simp only [ready] at h2 ⊢
    rw [hf, runLines_append, h1]
    simp [h2, specTrace]

/-- **Every statement is executed exactly once, in order, and nothing else is executed**: the
executions of the whole session are the valid statements of the program, each compiled from its
complete text. -/
theorem executed_exactly_once (prog : List (Item W.Code)) (hc : Contract W prog) (ns : W.NS) :
    execs (runLines W (ready ns) (feed prog)).2 = validSrcs prog := by
  rw [repl_equiv W prog hc ns]; exact execs_specTrace W prog ns

/-! ## prompt_spec -/

/-- **prompt_spec.**  For every line of every statement: after entering the `j`-th fed line of a
statement the continuation prompt is shown iff that line is not the statement's last one (the
text entered so far is a proper prefix of the statement) – otherwise the primary prompt. -/
theorem prompt_spec (pre post : List (Item W.Code)) (s : Entry W.Code)
    (hc : Contract W (pre ++ .stmt s :: post)) (ns : W.NS) (j : Nat) (hj : j < s.fed.length) :
    ((runLines W (ready ns) (feed (pre ++ .stmt s :: post))).2[(feed pre).length + j]?).map (·.prompt) =
      some (if j + 1 < s.fed.length then ContinuationPrompt else NormalPrompt) := by
  rw [repl_equiv W _ hc ns]
  have hpre : Contract W pre := fun x hx => hc x (by simp [hx])
  have hlen := specTrace_length W pre hpre ns
  simp only [specTrace_append, specTrace]
  rw [List.getElem?_append_right (by omega), hlen, Nat.add_sub_cancel_left]
  rw [List.getElem?_append_left (by
    have hs : ItemOK W (.stmt s) := hc _ (by simp)
    have := specItem_length W (.stmt s) hs (specTrace W ns pre).1
    simp only [Item.fed] at this; omega)]
  simp only [specItem]
  by_cases hlast : j + 1 < s.fed.length
  · rw [List.getElem?_append_left (by simp; omega)]
    simp [hlast, List.getElem?_replicate]
  · rw [List.getElem?_append_right (by simp; omega)]
    have : j - (s.fed.length - 1) = 0 := by omega
    simp [hlast, this]

/-- … and a line that is no statement (empty, blank, comment) leaves the primary prompt. -/
theorem prompt_spec_skip (pre post : List (Item W.Code)) (l : String)
    (hc : Contract W (pre ++ .skip l :: post)) (ns : W.NS) :
    ((runLines W (ready ns) (feed (pre ++ .skip l :: post))).2[(feed pre).length]?).map (·.prompt) = some NormalPrompt := by
  rw [repl_equiv W _ hc ns]
  have hpre : Contract W pre := fun x hx => hc x (by simp [hx])
  have hlen := specTrace_length W pre hpre ns
  simp only [specTrace_append, specTrace]
  rw [List.getElem?_append_right (by omega), hlen, Nat.sub_self]
  simp [specItem]

/-- "never once everything entered has been executed": after the last line of ANY prefix of the
program's items the REPL is at the primary prompt, nothing is pending, and the namespace is the one
obtained by executing the statements so far one by one. -/
theorem ready_after_items (pre post : List (Item W.Code)) (hc : Contract W (pre ++ post)) (ns : W.NS) :
    (runLines W (ready ns) (feed pre)).1 = ready (specNS W ns pre) := by
  have hpre : Contract W pre := fun x hx => hc x (by simp [hx])
  rw [repl_equiv W pre hpre ns]; rfl

/-! ## session_survives_error -/

/-- **session_survives_error.**  A statement that does not compile is reported, changes nothing
(the REPL state after it equals the state before it: namespace intact, primary prompt, nothing
pending), and the rest of the program is then processed exactly as specified. -/
theorem session_survives_error (pre post : List (Item W.Code)) (bad : Entry W.Code) (e : SynErr)
    (hbad : bad.res = .synErr e) (hc : Contract W (pre ++ .stmt bad :: post)) (ns : W.NS) :
    let before := (runLines W (ready ns) (feed pre)).1
    let after := (runLines W (ready ns) (feed (pre ++ [.stmt bad]))).1
    after = before ∧ before = ready (specNS W ns pre) ∧
    (runLines W (ready ns) (feed (pre ++ [.stmt bad]))).2.getLast? =
      some ⟨NormalPrompt, [.print ("Compile error: " ++ errText e)]⟩ ∧
    runLines W after (feed post) = (ready (specNS W (specNS W ns pre) post), (specTrace W (specNS W ns pre) post).2) := by
  have hpre : Contract W pre := fun x hx => hc x (by simp [hx])
  have hpb : Contract W (pre ++ [.stmt bad]) := fun x hx => hc x (by
    simp at hx ⊢; rcases hx with h | h <;> simp [h])
  have hpost : Contract W post := fun x hx => hc x (by simp [hx])
  have hns : (specTrace W ns (pre ++ [.stmt bad])).1 = specNS W ns pre := by
    simp [specTrace_append, specTrace, specItem, specFinish, hbad, specNS]
  simp only
  rw [repl_equiv W _ hpb ns, repl_equiv W _ hpre ns, hns]
  refine ⟨rfl, rfl, ?_, ?_⟩
  · simp [specTrace_append, specTrace, specItem, specFinish, hbad]
  · exact repl_equiv W post hpost _

/-- A run-time error is part of what executing the statement shows (`Out.raised`); whatever the
statement did, the REPL is ready again afterwards and goes on with the namespace the failed
statement left – the general form of "leaves the session usable". -/
theorem session_survives_runtime_error (pre post : List (Item W.Code)) (s : Entry W.Code) (c : W.Code)
    (hs : s.res = .code c) (hc : Contract W (pre ++ .stmt s :: post)) (ns : W.NS) :
    (runLines W (ready ns) (feed (pre ++ [.stmt s]))).1 = ready (W.run c (specNS W ns pre)).1 ∧
    runLines W (ready (W.run c (specNS W ns pre)).1) (feed post) =
      (ready (specNS W (W.run c (specNS W ns pre)).1 post), (specTrace W (W.run c (specNS W ns pre)).1 post).2) := by
  have hpb : Contract W (pre ++ [.stmt s]) := fun x hx => hc x (by
    simp at hx ⊢; rcases hx with h | h <;> simp [h])
  have hpost : Contract W post := fun x hx => hc x (by simp [hx])
  refine ⟨?_, repl_equiv W post hpost _⟩
  rw [repl_equiv W _ hpb ns]
  simp [specTrace_append, specTrace, specItem, specFinish, hs, specNS]

/-! ## the EOF test (DESIGN §4.3) -/

/-- **errtext_unambiguous** (after fix a2406d5): whether the REPL asks for more input does not depend
on the source line embedded in the error, nor on its position. -/
theorem needsMore_ignores_source_line (e : SynErr) (line : String) (lineno offset : Nat) :
    needsMoreInput { e with line := line, lineno := lineno, offset := offset } = needsMoreInput e := rfl

theorem needsMore_iff (e : SynErr) : needsMoreInput e = true ↔ e.msg = eofMsg ∨ e.msg = tripleMsg := by
  simp [needsMoreInput]

/-- the test made before the fix – `strings.Contains(err.Error(), "unexpected EOF while parsing")` – WAS
ambiguous: an "invalid syntax" error on the line `s = 'unexpected EOF while parsing' )` was taken
for incomplete input (confirmed on the unfixed code through the harness; see KNOWN_FINDINGS `fixed:`). -/
theorem old_textual_test_witness :
    needsMoreInputOld { msg := "invalid syntax", line := "s = 'unexpected EOF while parsing' )\n", lineno := 1, offset := 36 } = true ∧
    needsMoreInput { msg := "invalid syntax", line := "s = 'unexpected EOF while parsing' )\n", lineno := 1, offset := 36 } = false := by
  decide

/-! ## expression statements: PRINT_EXPR = sys.displayhook -/

/-- `do_PRINT_EXPR` (after fix 5049072) is `sys.displayhook`: None is neither echoed nor bound to `_`;
any other value is echoed as its repr and bound to `_`. -/
theorem printExpr_eq_displayhook (funs : List FunDef) (v : Val) (g : List (String × Val)) :
    doPrintExpr funs v g = displayhook funs v g := by
  cases v with
  | obj r => cases r <;> simp [doPrintExpr, displayhook, reprErr]
  | _ => simp [doPrintExpr, displayhook, reprErr]

theorem printExpr_none (funs : List FunDef) (g : List (String × Val)) : doPrintExpr funs .none g = (g, [], none) := by
  simp [doPrintExpr]

/-- an exception raised by `repr(value)` while the value is being echoed: nothing is printed, `_` is left at None
(it was reset before the repr was taken) and the exception is the statement's error – exactly what `sys.displayhook` does -/
theorem printExpr_repr_raises (funs : List FunDef) (g : List (String × Val)) :
    doPrintExpr funs (.obj none) g = (setVar g "_" .none, [], some "ZeroDivisionError") ∧
    displayhook funs (.obj none) g = (setVar g "_" .none, [], some "ZeroDivisionError") := by
  simp [doPrintExpr, displayhook, reprErr]

/-- the compiler emits PRINT_EXPR exactly for the expression statements of the interactive top-level
code object (`interactive && depth <= 1`), i.e. the model's hook is the spec's hook -/
theorem modelHook_eq_specHook : modelHook true = specHook := by
  funext nest funs v g
  cases nest <;> simp [modelHook, specHook, printExpr_eq_displayhook]

/-- **print_expr_spec.**  Executing any statement body of the fragment with the modelled compiler/VM
rule gives the namespace, echoes and error report the specification gives. -/
theorem print_expr_spec (body : List Stmt) (ns : NS) : modelRun body ns = specRun body ns := by
  simp [modelRun, specRun, modelHook_eq_specHook]

/-- in file (exec) mode and inside function bodies nothing is echoed -/
theorem modelHook_not_interactive (nest : Nat) (funs : List FunDef) (v : Val) (g : List (String × Val)) :
    modelHook false nest funs v g = (g, [], none) := by
  simp [modelHook]

theorem modelHook_nested (nest : Nat) (funs : List FunDef) (v : Val) (g : List (String × Val)) :
    modelHook true (nest + 1) funs v g = (g, [], none) := by
  simp [modelHook]

/-! ## known findings -/

/-- the contract excludes exactly the known findings: for a multi-line statement, "the first line alone
needs more input" ⟺ it is neither accepted (C20-K01) nor rejected (C20-K02) by the oracle -/
theorem contract_excludes_exactly_known_findings (s : Entry W.Code) (l l' : String) (rest : List String) (hl : s.lines = l :: l' :: rest) :
    isIncomplete (W.compile (text [l])) = true ↔ (kfPrefixAccepted W s = false ∧ kfPrefixRejected W s = false) :=
  first_incomplete_iff_not_kf W s l l' rest hl

/-- **repl_equiv_partial**: `repl_equiv` for every program none of whose statements is in a
known-finding region (C20-K01: first line accepted as a complete statement; `kfPrefixRejected`: first line
rejected although the statement continues – the former C20-K02, repaired by fix d93e0e4, no instance known any more). -/
theorem repl_equiv_partial (prog : List (Item W.Code))
    (hc : ∀ it ∈ prog, match it with
      | .stmt s => EntryOKPartial W s
      | .skip l => l = "" ∨ (isBlankOrComment l = true ∧ isIncomplete (W.compile (text [l])) = true))
    (ns : W.NS) :
    runLines W (ready ns) (feed prog) = (ready (specTrace W ns prog).1, (specTrace W ns prog).2) := by
  apply repl_equiv
  intro it hit
  have := hc it hit
  cases it with
  | stmt s => exact EntryOKPartial.toOK W this
  | skip l => exact this

/-- a world for the witnesses: the oracle answers as the real `py.Compile` does on these texts
(checked by the `O` cases of the correspondence run); execution is irrelevant here -/
def witnessWorld (ok : List String) (syn : List String) : World where
  Code := Unit
  NS := Unit
  compile := fun t =>
    if ok.contains t then .ok ()
    else if syn.contains t then .error { msg := "EOL while scanning string literal" }
    else .error { msg := "invalid syntax" }
  run := fun _ ns => (ns, [])

def wK01 : World := witnessWorld ["if x: y = 1\n", "if x: y = 1\nelse: y = 2\n\n"] []
def sK01 : Entry Unit := { lines := ["if x: y = 1", "else: y = 2"], res := .code () }

/-- C20-K01: `if x: y = 1` / `else: y = 2`: the REPL executes the first line at once (primary prompt,
an execution) where the statement is still incomplete (continuation prompt, nothing executed),
and reports the `else` line as a syntax error. -/
theorem repl_equiv_K01_witness :
    kfPrefixAccepted wK01 sK01 = true ∧
    (runLines wK01 (ready ()) (feed [.stmt sK01])).2 ≠ (specTrace wK01 () [.stmt sK01]).2 ∧
    (runLines wK01 (ready ()) (feed [.stmt sK01])).2 =
      [⟨NormalPrompt, [.exec "if x: y = 1\n" []]⟩, ⟨NormalPrompt, [.print ("Compile error: " ++ errText { msg := "invalid syntax" })]⟩, ⟨NormalPrompt, []⟩] := by
  decide

def wK02 : World := witnessWorld ["s = 'ab\\\ncd'\n\n"] ["s = 'ab\\\n", "cd'\n"]
def sK02 : Entry Unit := { lines := ["s = 'ab\\", "cd'"], res := .code () }

/-- C20-K02 as it WAS before fix d93e0e4 (kept for the record; the oracle of `wK02` answers as the unrepaired lexer
did): a single-quoted string continued with backslash-newline: the first line was reported as a syntax error instead
of switching to the continuation prompt; the statement was never executed. -/
theorem repl_equiv_K02_old_witness :
    kfPrefixRejected wK02 sK02 = true ∧
    (runLines wK02 (ready ()) (feed [.stmt sK02])).2 ≠ (specTrace wK02 () [.stmt sK02]).2 ∧
    execs (runLines wK02 (ready ()) (feed [.stmt sK02])).2 = [] := by
  decide

/-- the world after fix d93e0e4: the lexer in interactive mode reports "unexpected EOF while parsing" when the
backslash-newline of a single-quoted literal is the end of the input -/
def wK02fixed : World where
  Code := Unit
  NS := Unit
  compile := fun t =>
    if t == "s = 'ab\\\ncd'\n\n" then .ok ()
    else if t == "s = 'ab\\\n" then .error { msg := eofMsg }
    else .error { msg := "invalid syntax" }
  run := fun _ ns => (ns, [])

/-- C20-K02 repaired: the same session now is exactly what the specification demands (continuation prompt twice,
the statement executed once at its terminating empty line) -/
theorem repl_equiv_K02_fixed :
    kfPrefixRejected wK02fixed sK02 = false ∧
    (runLines wK02fixed (ready ()) (feed [.stmt sK02])).2 = (specTrace wK02fixed () [.stmt sK02]).2 ∧
    (runLines wK02fixed (ready ()) (feed [.stmt sK02])).2.map (·.prompt) = [ContinuationPrompt, ContinuationPrompt, NormalPrompt] ∧
    execs (runLines wK02fixed (ready ()) (feed [.stmt sK02])).2 = ["s = 'ab\\\ncd'\n\n"] := by
  decide

/-! ## non-vacuity: the contract is satisfiable by a non-trivial program -/

def wEx : World := witnessWorld ["a = (1 +\n\n2)\n\n", "b = 2\n"] []
def sEx : Entry Unit := { lines := ["a = (1 +", "", "2)"], res := .code () }
def sBad : Entry Unit := { lines := ["a = )"], res := .synErr { msg := "invalid syntax", line := "a = )\n" } }

/-- the test world must ask for more input on proper prefixes: use the EOF message for them -/
def wEx' : World where
  Code := Unit
  NS := Unit
  compile := fun t =>
    if t == "a = (1 +\n" || t == "a = (1 +\n\n" || t == "# c\n" then .error { msg := eofMsg }
    else if t == "a = )\n" then .error { msg := "invalid syntax", line := "a = )\n" }
    else wEx.compile t
  run := fun _ ns => (ns, [])

example : Contract wEx' [.stmt sEx, .skip "# c", .skip "", .stmt sBad, .stmt { lines := ["b = 2"], res := .code () }] := by
  intro it hit
  simp only [List.mem_cons, List.mem_nil_iff, or_false] at hit
  rcases hit with rfl | rfl | rfl | rfl | rfl
  · refine ⟨⟨_, _, rfl, by decide⟩, (by intro e h; cases h), by rfl, ?_, ?_⟩
    · intro l rest h _; simp [sEx] at h; obtain ⟨rfl, _⟩ := h; decide
    · intro done rest hd h
      simp only [sEx] at h
      rcases done with _ | ⟨d0, _ | ⟨d1, done⟩⟩
      · exact absurd rfl hd
      · simp at h; obtain ⟨rfl, _⟩ := h; decide
      · simp at h
        rcases done with _ | ⟨d2, done⟩ <;> simp at h
  · right; exact ⟨by decide, by decide⟩
  · left; rfl
  · refine ⟨⟨_, _, rfl, by decide⟩, ?_, by rfl, ?_, ?_⟩
    · intro e h; cases h; decide
    · intro l rest h hr; simp [sBad] at h; exact (hr h.2).elim
    · intro done rest hd h
      simp only [sBad] at h
      rcases done with _ | ⟨d0, done⟩
      · exact absurd rfl hd
      · simp at h
  · refine ⟨⟨_, _, rfl, by decide⟩, (by intro e h; cases h), by rfl, ?_, ?_⟩
    · intro l rest h hr; simp at h; exact (hr h.2).elim
    · intro done rest hd h
      rcases done with _ | ⟨d0, done⟩
      · exact absurd rfl hd
      · simp at h

/-- … and on that program the REPL really shows `... ` three times, executes both valid statements
once each and reports the bad one (a test of the definitions, by evaluation) -/
example : ((runLines wEx' (ready ()) (feed [.stmt sEx, .skip "# c", .skip "", .stmt sBad, .stmt { lines := ["b = 2"], res := .code () }])).2.map (·.prompt))
    = ["... ", "... ", "... ", ">>> ", ">>> ", ">>> ", ">>> ", ">>> "] := by decide


/-! ## the compile pipeline modelled (second round) -/

section Modelled
variable {Code NS : Type}

/-- **lexer_lockstep.**  One step of `Lex` on the text `a ++ b` is the same step as on `a` (same token, same new
state up to the unread remainder `b`), for as long as the step on `a` does not reach the end of `a`. -/
theorem lexer_lockstep (b : List Char) (s : LexSt) (h : (C06.step s).1.eof = false) :
    C06.step (ext b s) = (ext b (C06.step s).1, (C06.step s).2) := step_ext b s h

/-- **lexer_eof_monotone.**  Once the lexer has seen the end of the input its `eof` flag stays set: every token
handed over from then on – the DEDENTs and the NEWLINE queued in interactive mode – is handed over with `x.eof`. -/
theorem lexer_eof_monotone (s : LexSt) (h : s.eof = true) : (C06.step s).1.eof = true := step_eof_mono s h

/-- **lexer_prefix_tokens.**  For every text `a`, every continuation `b` and every fuel: the tokens the lexer hands
over for `a` split into `X` (in order) followed by tokens that all carry the flag `eof`, and `X` is also the beginning
of what it hands over for `a ++ b`.  (Token lists are accumulated in reverse, as in the model.) -/
theorem lexer_prefix_tokens (a b : List Char) (f : Nat) :
    ∃ X post more, (runE f (C06.initLex a .single) []).2.1 = post ++ X ∧ (∀ p ∈ post, p.2 = true) ∧
      (runE f (C06.initLex (a ++ b) .single) []).2.1 = more ++ X := by
  obtain ⟨X, post, more, _, h1, h2, h3, _, _⟩ := sim b f (C06.initLex a .single) []
  exact ⟨X, post, more, h1, h2, h3⟩

/-- **incomplete_iff_prefix.**  For EVERY parser `G` (any online machine over tokens) and every text `a` ending in a
newline that is the beginning of a text `a ++ b` the pipeline compiles to code: the modelled pipeline
(C06 lexer in single mode → parser → `ErrorReturn`) asks for more input on `a` – "unexpected EOF while parsing" or
the string-literal-at-EOF message – EXACTLY when the parser gives no verdict of its own on the tokens of `a`,
i.e. when `a` is a proper prefix of a statement at token level and not itself a statement.  (Hypothesis `hstop`:
the fuel of the lexer model suffices for `a`.) -/
theorem incomplete_iff_prefix (G : Grammar Code) (a b : String) (c : Code)
    (hab : compileM G (a ++ b) = .ok c) (hnl : a.toList.getLast? = some '\n') (hstop : lexStops a = true) :
    isIncomplete (compileM G a) = true ↔ parserWaiting G a = true :=
  incomplete_iff_prefix_lemma G a b c hab hnl hstop

/-- … and the sharper form behind it: on a line-prefix of an accepted text neither the lexer nor the parser
automaton ever reports a syntax error before the end of the input: either the parser returns within the tokens
common to both texts (then `a` compiles to the same code: the rest of the text is never looked at – the shape of
C20-K01), or every verdict is reached on a token handed over at the end of the input and a lexer error, if there
is one, is raised at the end of the input (a string literal running into it). -/
theorem prefix_never_syntax_error (G : Grammar Code) (a b : String) (c : Code)
    (hab : compileM G (a ++ b) = .ok c) (hnl : a.toList.getLast? = some '\n') (hstop : lexStops a = true) :
    compileM G a = .ok c ∨
    ((∀ v fl, firstVerdict G [] (toksOf a) = some (v, fl) → fl = true) ∧
     ((lexSingle a.toList).1.err = true → (lexSingle a.toList).1.eof = true)) :=
  prefix_of_accepted G a b c hab hnl hstop

/-- the oracle contract of a valid statement follows from the pipeline model: "the first line alone needs more
input" and "so does the text up to an inner empty line" are derived, not assumed -/
theorem contract_from_model (G : Grammar Code) (run : Code → NS → NS × List Out) (s : Entry Code) (h : EntryOKM G s) :
    EntryOK (worldOf Code NS G run) s := h.toOK run

/-- **repl_equiv_modelled.**  `repl_equiv` with the compile step of the REPL being the modelled pipeline: for every
parser `G`, every execution function and every program whose valid statements satisfy `EntryOKM` (complete text
compiles; the parser gives no verdict on the partial texts; lexer fuel) – statements Python rejects and skipped lines
still under the oracle contract. -/
theorem repl_equiv_modelled (G : Grammar Code) (run : Code → NS → NS × List Out) (prog : List (Item Code))
    (hc : ContractM G run prog) (ns : NS) :
    runLines (worldOf Code NS G run) (ready ns) (feed prog) =
      (ready (specTrace (worldOf Code NS G run) ns prog).1, (specTrace (worldOf Code NS G run) ns prog).2) :=
  repl_equiv (worldOf Code NS G run) prog hc.toContract ns

theorem executed_exactly_once_modelled (G : Grammar Code) (run : Code → NS → NS × List Out) (prog : List (Item Code))
    (hc : ContractM G run prog) (ns : NS) :
    execs (runLines (worldOf Code NS G run) (ready ns) (feed prog)).2 = validSrcs prog :=
  executed_exactly_once (worldOf Code NS G run) prog hc.toContract ns

end Modelled

/-! ### non-vacuity of the modelled contract: a bracketed statement over three lines with an empty line inside -/

def fullEx : List Tok := [.start .single, .name "a", .p .equal, .p .lpar, .num (.int 1), .p .plus, .num (.int 2), .p .rpar, .newline]
/-- a parser that accepts exactly `a = (1 + 2) NEWLINE` and waits on its proper prefixes -/
def gEx : Grammar Unit where
  status := fun T => if T == fullEx then .done (.ok ()) else if T.isPrefixOf fullEx then .more else .dead none
def sExM : Entry Unit := { lines := ["a = (1 +", "", "2)"], res := .code () }

example : EntryOKM gEx sExM where
  first := ⟨_, _, rfl, by decide⟩
  valid := ⟨(), rfl⟩
  complete := by decide
  first_stops := by intro l rest h _; simp [sExM] at h; obtain ⟨rfl, _⟩ := h; decide
  first_waiting := by intro l rest h _; simp [sExM] at h; obtain ⟨rfl, _⟩ := h; decide
  blank_stops := by
    intro done rest hd h
    simp only [sExM] at h
    rcases done with _ | ⟨d0, _ | ⟨d1, done⟩⟩
    · exact absurd rfl hd
    · simp at h; obtain ⟨rfl, _⟩ := h; decide
    · simp at h
      rcases done with _ | ⟨d2, done⟩ <;> simp at h
  blank_waiting := by
    intro done rest hd h
    simp only [sExM] at h
    rcases done with _ | ⟨d0, _ | ⟨d1, done⟩⟩
    · exact absurd rfl hd
    · simp at h; obtain ⟨rfl, _⟩ := h; decide
    · simp at h
      rcases done with _ | ⟨d2, done⟩ <;> simp at h

/-- the modelled pipeline on the three texts the REPL compiles for that statement, and on a broken variant
(evaluation of the definitions; the C06 lexer model runs inside the kernel) -/
example : compileM gEx "a = (1 +\n" = .error { msg := eofMsg } ∧ compileM gEx "a = (1 +\n\n" = .error { msg := eofMsg } ∧
    compileM gEx "a = (1 +\n\n2)\n\n" = .ok () ∧ compileM gEx "a = (1 +* 2)\n" = .error { msg := lexErrMsg } := by decide

/-- a triple-quoted string and (after fix d93e0e4) a single-quoted string continued by backslash-newline that run
into the end of the input ask for more input (here with a parser that never gives a verdict); without the backslash the error is final -/
def gMore : Grammar Unit := ⟨fun _ => .more⟩
example :
    isIncomplete (compileM gMore "s = '''ab\n") = true ∧ isIncomplete (compileM gMore "s = 'ab\\\n") = true ∧
    isIncomplete (compileM gMore "s = 'ab\n") = false := by decide

end GPy.C20
