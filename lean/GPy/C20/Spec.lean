/-
C20 – specification, written from Python's definition of interactive input (language reference
§8 "compound statements" / §9.2 "interactive input", `sys.displayhook`), independent of the REPL code:

* a program is a list of items: statements (each a list of physical lines) and skipped lines
  (empty / whitespace-only / comment lines at the primary prompt);
* it is fed one physical line at a time, a multi-line statement being followed by one empty line;
* every statement is executed exactly once, when its LAST fed line has been entered, in one
  namespace; nothing else is ever executed;
* the continuation prompt is shown after a line iff the lines entered so far end strictly inside
  a statement;
* the value of an expression statement of the interactive top level is echoed as its repr and
  bound to `_` unless it is None (then neither); a statement that does not compile is reported
  and changes nothing.

Also here: the ORACLE CONTRACT (what the theorems assume about `py.Compile` in single mode) and
the known-finding predicates.  Core Lean only.
-/
import GPy.C20.Model
namespace GPy.C20

/-! ## Programs -/

/-- what compiling the complete statement gives -/
inductive Res (Code : Type)
  | code (c : Code)          -- a valid statement
  | synErr (e : SynErr)      -- a statement Python rejects at compile time
deriving Inhabited

/-- one statement: its physical lines (without the terminating empty line) -/
structure Entry (Code : Type) where
  lines : List String
  res : Res Code
deriving Inhabited

inductive Item (Code : Type)
  | stmt (s : Entry Code)
  | skip (line : String)     -- a line entered at the primary prompt that is no statement
deriving Inhabited

/-- the lines actually typed for a statement: a multi-line statement is followed by an empty line -/
def Entry.fed {Code} (s : Entry Code) : List String :=
  if s.lines.length ≤ 1 then s.lines else s.lines ++ [""]

def Item.fed {Code} : Item Code → List String
  | .stmt s => s.fed
  | .skip l => [l]

def feed {Code} (prog : List (Item Code)) : List String := prog.flatMap Item.fed

/-- the source text of some physical lines, as it is handed to the compiler -/
def text : List String → String
  | [] => ""
  | l :: ls => l ++ "\n" ++ text ls

/-! ## Specification of a session -/

/-- what entering the last line of a statement does -/
def specFinish (W : World) (ns : W.NS) (s : Entry W.Code) : W.NS × Action :=
  match s.res with
  | .code c => let r := W.run c ns; (r.1, .exec (text s.fed) r.2)
  | .synErr e => (ns, .print ("Compile error: " ++ errText e))

def specItem (W : World) (ns : W.NS) : Item W.Code → W.NS × List LineObs
  | .skip _ => (ns, [⟨NormalPrompt, []⟩])
  | .stmt s =>
    let r := specFinish W ns s
    (r.1, List.replicate (s.fed.length - 1) ⟨ContinuationPrompt, []⟩ ++ [⟨NormalPrompt, [r.2]⟩])

def specTrace (W : World) (ns : W.NS) : List (Item W.Code) → W.NS × List LineObs
  | [] => (ns, [])
  | it :: rest =>
    let r := specItem W ns it
    let r' := specTrace W r.1 rest
    (r'.1, r.2 ++ r'.2)

/-- the namespace after the program (statements one by one in one namespace) -/
def specNS (W : World) (ns : W.NS) (prog : List (Item W.Code)) : W.NS := (specTrace W ns prog).1

/-! ## The oracle contract

What the theorems assume about `py.Compile(·, single)` for the statements of the program.
Only the texts the REPL really compiles are constrained: the first line alone, the text up to an
empty line inside the statement, and the complete text followed by the terminating empty line. -/

def isIncomplete {Code} : CResult Code → Bool
  | .error e => needsMoreInput e
  | .ok _ => false

def Res.toC {Code} : Res Code → CResult Code
  | .code c => .ok c
  | .synErr e => .error e

structure EntryOK (W : World) (s : Entry W.Code) : Prop where
  /-- a statement starts with a line that is neither empty, nor blank, nor a comment -/
  first : ∃ l rest, s.lines = l :: rest ∧ isBlankOrComment l = false
  /-- a reported syntax error is not the "more input needed" signal -/
  final : ∀ e, s.res = .synErr e → needsMoreInput e = false
  /-- the complete statement (with its terminating empty line if it has several lines) compiles to `res` -/
  complete : W.compile (text s.fed) = s.res.toC
  /-- the first line of a multi-line statement alone needs more input -/
  first_incomplete : ∀ l rest, s.lines = l :: rest → rest ≠ [] → isIncomplete (W.compile (text [l])) = true
  /-- so does the text up to and including an empty line inside the statement (brackets, triple-quoted strings) -/
  blank_incomplete : ∀ done rest, done ≠ [] → s.lines = done ++ "" :: rest → isIncomplete (W.compile (text (done ++ [""]))) = true

def ItemOK (W : World) : Item W.Code → Prop
  | .stmt s => EntryOK W s
  | .skip l => l = "" ∨ (isBlankOrComment l = true ∧ isIncomplete (W.compile (text [l])) = true)

def Contract (W : World) (prog : List (Item W.Code)) : Prop := ∀ it ∈ prog, ItemOK W it

/-! ## Known findings: statements for which the real pipeline breaks the contract -/

/-- C20-K01: the first line of a multi-line statement is itself accepted as a complete statement
(`if c: a` followed by `else: b`): it is executed before the statement is complete. -/
def kfPrefixAccepted (W : World) (s : Entry W.Code) : Bool :=
  match s.lines with
  | l :: _ :: _ => match W.compile (text [l]) with | .ok _ => true | .error _ => false
  | _ => false

/-- (was C20-K02, repaired by fix d93e0e4: backslash-newline inside a single-quoted string literal; no instance is
known any more) the first line of a multi-line statement is rejected as a syntax error instead of asking for more input. -/
def kfPrefixRejected (W : World) (s : Entry W.Code) : Bool :=
  match s.lines with
  | l :: _ :: _ => match W.compile (text [l]) with | .ok _ => false | .error e => !needsMoreInput e
  | _ => false

/-- the contract with the known-finding exclusions made explicit -/
structure EntryOKPartial (W : World) (s : Entry W.Code) : Prop where
  first : ∃ l rest, s.lines = l :: rest ∧ isBlankOrComment l = false
  final : ∀ e, s.res = .synErr e → needsMoreInput e = false
  complete : W.compile (text s.fed) = s.res.toC
  blank_incomplete : ∀ done rest, done ≠ [] → s.lines = done ++ "" :: rest → isIncomplete (W.compile (text (done ++ [""]))) = true
  /-- excluded: C20-K01 -/
  not_K01 : kfPrefixAccepted W s = false
  /-- excluded: first line rejected (the former C20-K02) -/
  not_K02 : kfPrefixRejected W s = false


/-! ## Observables used by the theorems -/

/-- the REPL waiting at the primary prompt with nothing pending -/
def ready {NS : Type} (ns : NS) : ReplState NS := ⟨false, "", NormalPrompt, ns⟩

/-- the executions recorded in a trace, in order: the source text each executed code was compiled from -/
def execs (obs : List LineObs) : List String :=
  obs.flatMap fun o => o.acts.filterMap fun a => match a with | .exec src _ => some src | _ => none

/-- the valid statements of a program, in order (their complete source text as typed) -/
def validSrcs {Code} (prog : List (Item Code)) : List String :=
  prog.filterMap fun it => match it with
    | .stmt s => (match s.res with | .code _ => some (text s.fed) | .synErr _ => none)
    | .skip _ => none


/-! ## Expression statements (sys.displayhook) -/

/-- `sys.displayhook(value)`: None is ignored; otherwise `_` is set to None, the repr printed, `_` bound; an exception
raised by `repr(value)` propagates (then `_` stays None and nothing is printed) -/
def displayhook (funs : List FunDef) (value : Val) (g : List (String × Val)) : List (String × Val) × List Out × Option String :=
  match value with
  | .none => (g, [], none)
  | v =>
    match reprErr v with
    | some c => (setVar g "_" .none, [], some c)
    | none => (setVar (setVar g "_" .none) "_" v, [.echo (reprVal funs v)], none)

/-- only expression statements of the interactive top-level code are displayed; inside a function
body the value is discarded -/
def specHook : ExprHook := fun nest funs v g =>
  if nest == 0 then displayhook funs v g else (g, [], none)

def specRun (body : List Stmt) (ns : NS) : NS × List Out := runBody specHook fuelDefault body ns

/-- executing the program as a FILE (exec mode): nothing is displayed; the first error aborts -/
def fileHook : ExprHook := fun _ _ _ g => (g, [], none)

end GPy.C20
