/-
Common definitions shared by all property models (core Lean only: the driver
`gpymodel` links against this, so nothing here may import Mathlib).
-/
namespace GPy

/-- Go `int64` limits (py.IntMax / py.IntMin). -/
def IntMax : Int := 9223372036854775807
def IntMin : Int := -9223372036854775808

/-- `x` is representable as a Go `int64` / `py.Int`. -/
def inRange (x : Int) : Prop := IntMin ≤ x ∧ x ≤ IntMax

instance (x : Int) : Decidable (inRange x) := by unfold inRange; exact inferInstance

/-- Two's-complement wrap-around of Go's `int64` arithmetic. -/
def wrap64 (x : Int) : Int := (x + 9223372036854775808) % 18446744073709551616 - 9223372036854775808

theorem wrap64_of_inRange {x : Int} (h : inRange x) : wrap64 x = x := by
  unfold inRange IntMin IntMax at h; unfold wrap64; omega

theorem wrap64_inRange (x : Int) : inRange (wrap64 x) := by
  unfold inRange IntMin IntMax wrap64; omega

/-- Deterministic PRNG (splitmix64) – every random choice of every generator
derives from one `UInt64` state seeded by `VERIF_SEED`. -/
structure Rng where
  s : UInt64
deriving Repr

def Rng.next (r : Rng) : Rng × UInt64 :=
  let s := r.s + 0x9E3779B97F4A7C15
  let z := s
  let z := (z ^^^ (z >>> 30)) * 0xBF58476D1CE4E5B9
  let z := (z ^^^ (z >>> 27)) * 0x94D049BB133111EB
  let z := z ^^^ (z >>> 31)
  (⟨s⟩, z)

def Rng.nat (r : Rng) (bound : Nat) : Rng × Nat :=
  let (r, z) := r.next
  (r, if bound = 0 then 0 else z.toNat % bound)

/-- random natural with up to `bits` bits -/
def Rng.bits (r : Rng) (bits : Nat) : Rng × Nat := Id.run do
  let mut r := r
  let mut acc := 0
  let mut got := 0
  while got < bits do
    let (r', z) := r.next
    r := r'
    acc := acc * 18446744073709551616 + z.toNat
    got := got + 64
  return (r, acc % (2 ^ bits))

def Rng.pick {α} [Inhabited α] (r : Rng) (xs : Array α) : Rng × α :=
  let (r, i) := r.nat xs.size
  (r, xs[i]!)

/-- One generated case of the line protocol:
`input ⟶ model V ⟶ model R ⟶ spec V ⟶ tags`.
`V` is the property-level observable, `R` extra representation detail that only
the model/implementation correspondence compares. -/
structure Case where
  input : String
  modelV : String
  modelR : String := ""
  specV : String
  tags : List String := []

def Case.line (c : Case) : String :=
  c.input ++ "\t" ++ c.modelV ++ "\t" ++ c.modelR ++ "\t" ++ c.specV ++ "\t" ++ ",".intercalate c.tags

end GPy

namespace GPy
/-! Two's-complement bitwise operations on ℤ ("infinite sign extension"): computed
in a bit-vector wide enough to hold both operands with their sign bit. -/
def bitsFor (x y : Int) : Nat := max x.natAbs.log2 y.natAbs.log2 + 2

def iland (x y : Int) : Int := let w := bitsFor x y; (BitVec.ofInt w x &&& BitVec.ofInt w y).toInt
def ilor (x y : Int) : Int := let w := bitsFor x y; (BitVec.ofInt w x ||| BitVec.ofInt w y).toInt
def ixor (x y : Int) : Int := let w := bitsFor x y; (BitVec.ofInt w x ^^^ BitVec.ofInt w y).toInt

/-- Go's `&`, `|`, `^` on int64 -/
def and64 (x y : Int) : Int := (BitVec.ofInt 64 x &&& BitVec.ofInt 64 y).toInt
def or64 (x y : Int) : Int := (BitVec.ofInt 64 x ||| BitVec.ofInt 64 y).toInt
def xor64 (x y : Int) : Int := (BitVec.ofInt 64 x ^^^ BitVec.ofInt 64 y).toInt
end GPy
