import GPy.C10.Gen
import GPy.C17.Gen
import GPy.C11.Gen
import GPy.C18.Gen
import GPy.C09.Search
import GPy.C08.Gen
import GPy.C14.Gen
import GPy.C02.Gen
import GPy.C13.Gen
import GPy.C12.Gen
import GPy.C04.Gen
import GPy.C01.Gen
import GPy.C06.Gen
import GPy.C06.StmtGen
import GPy.C06.XGen
import GPy.C20.Gen
import GPy.C03.Gen
import GPy.C19.Gen
import GPy.C05.Gen
import GPy.C16.Gen
import GPy.C15.Gen
import GPy.C07.Gen

/-- `gpymodel <property> <tier> <seed>`: print the generated cases of one property. -/
def main (args : List String) : IO UInt32 := do
  match args with
  | [prop, tier, seed] =>
    let seed := seed.toNat!
    match prop with
    | "C07" => GPy.C07.genMain tier seed; return 0
    | "C15" => GPy.C15.genMain tier seed; return 0
    | "C16" => GPy.C16.genMain tier seed; return 0
    | "C05" => GPy.C05.genMain tier seed; return 0
    | "C19" => GPy.C19.genMain tier seed; return 0
    | "C03" => GPy.C03.genMain tier seed; return 0
    | "C20" => GPy.C20.genMain tier seed; return 0
    | "C06" => GPy.C06.genMain tier seed; GPy.C06.genStmts seed (if tier == "thorough" then 6000 else 300); GPy.C06.X.genX tier seed; return 0
    | "C01" => GPy.C01.genMain tier seed; return 0
    | "C04" => GPy.C04.genMain tier seed; return 0
    | "C12" => GPy.C12.genMain tier seed; return 0
    | "C13" => GPy.C13.genMain tier seed; return 0
    | "C02" => GPy.C02.genMain tier seed; return 0
    | "C14" => GPy.C14.genMain tier seed; return 0
    | "C08" => GPy.C08.genMain tier seed; return 0
    | "C09" => GPy.C09.genMain tier seed; return 0
    | "C18" => GPy.C18.genMain tier seed; return 0
    | "C11" => GPy.C11.genMain tier seed; return 0
    | "C17" => GPy.C17.genMain tier seed; return 0
    | "C10" => GPy.C10.genMain tier seed; return 0
    | _ => IO.eprintln s!"unknown property {prop}"; return 2
  | ["C12verify"] => GPy.C12.verifyMain; return 0
  | _ => IO.eprintln "usage: gpymodel <Cxx> <quick|thorough> <seed>"; return 2
