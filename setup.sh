#!/bin/sh
# MANIFEST.setup_cmd: build the Lean library (all property theorems), the model driver and the Go harness, offline.
set -e
cd "$(dirname "$0")"
export GOFLAGS=-mod=mod GOPROXY=off GOSUMDB=off GOTOOLCHAIN=local
mkdir -p work evidence replays
python3 tools/mkdrivers.py
(cd lean && lake build)
cp /repo/go.sum harness/go.sum
(cd harness && go build -tags verif -o ../work/gpyh.bin .)
(cd extract/fingerprint && go build -o ../../work/fingerprint .)
echo setup ok
