#!/usr/bin/env python3
"""tools/add_manifest.py Cxx : take the JSON object of section 7 of reports/REPORT-Cxx.md into tools/manifest_src.json"""
import sys, json, re
P = sys.argv[1]
EXT = ("-" + sys.argv[2]) if len(sys.argv) > 2 else ""
t = open(f"/verif/reports/REPORT-{P}{EXT}.md").read()
objs = re.findall(r"```json\s*(\{.*?\})\s*```", t, flags=re.S)
obj = None
for o in objs:
    try:
        d = json.loads(o)
        if "text" in d and "note" in d: obj = d
    except Exception as e: pass
if obj is None:
    print("no manifest json found"); sys.exit(1)
props = {json.loads(l)["id"]: json.loads(l) for l in open("/verif/properties.jsonl")}
if len(obj["text"]) < 120:
    obj["text"] = obj["text"] + ". " + obj["note"][:600]
m = json.load(open("/verif/tools/manifest_src.json"))
m["checks"][P] = {"text": obj["text"], "note": obj["note"], "technique": obj.get("technique", "Lean 4 proof + correspondence")}
json.dump(m, open("/verif/tools/manifest_src.json", "w"), indent=1)
print("added", P)
