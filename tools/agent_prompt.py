#!/usr/bin/env python3
"""print the build-agent prompt for one property"""
import json, sys
pid = sys.argv[1]
extra = sys.argv[2] if len(sys.argv) > 2 else ""
props = {json.loads(l)["id"]: json.loads(l) for l in open("/verif/properties.jsonl")}
p = props[pid]
W = f"/tmp/w-{pid}"
print(f"""You are building one piece of a Lean-4 machine-checked verification framework for go-python/gpython (a Python 3.4 interpreter written in Go). Work ONLY inside your private workspace {W}; never modify /repo or /verif (read-only for you).

Workspace:
- {W}/verif  : a private copy of the framework. READ FIRST: {W}/verif/BUILDING.md (how a property kernel is built; protocol; rules), then the section "### {pid}" and sections 2, 3, 4, 6 of {W}/verif/DESIGN.md (the design you implement; it is ambitious – implement the *first-round minimum* listed in DESIGN.md §10 for {pid} first, then grow), then the worked example C07 (lean/GPy/C07/*.lean, harness/c07.go, checks/c07.py, checks/common.py, Main.lean).
- {W}/repo   : a private git worktree of gpython (the code under verification). You may commit here: (a) `fix: ...` commits repairing genuine small defects (one defect per commit, minimal, existing tests must still pass: `cd {W}/repo && go test -vet=off -count=1 ./...`), (b) hook commits guarded by the Go build tag `verif` (add-only; `//go:build verif` file + `!verif` no-op twin), only if the property really needs one.
- Always `export VERIF_REPO={W}/repo GOFLAGS=-mod=mod GOPROXY=off GOSUMDB=off GOTOOLCHAIN=local` in every shell call. The sandbox has no network. Lean 4.33 + Mathlib are installed (`lake`, `lean` on PATH); never add a `require` to the lakefile; never `import Mathlib` wholesale.

The property (fixed text, do not change it):
  id: {pid}
  title: {p['title']}
  statement: {p['statement']}
  quantifier: {p['quantifier']['text']}
  anchored files: {', '.join(p['anchors']['files'])}
  mechanisms: {json.dumps(p['anchors'].get('mechanism', []))[:1500]}

Your job: produce, in {W}/verif, the complete kernel for {pid}:
  lean/GPy/{pid}/Model.lean, Spec.lean, Gen.lean (core Lean only), Proofs.lean, Props.lean; harness/{pid.lower()}.go; checks/{pid.lower()}.py; the `"{pid}"` arm in lean/Main.lean and `import GPy.{pid}.Props` in lean/GPy.lean; `known:`/`fixed:` lines appended to KNOWN_FINDINGS.txt for {pid}; and finally a report {W}/verif/REPORT-{pid}.md.
Read the anchored Go code carefully before modelling. The model must mirror the Go code as it is (after your fix commits), the spec must come from Python's definition, the theorems must be universally quantified (no bounds on sizes/values/lengths) and kernel-checked with no sorry/axioms/native_decide, and the correspondence run (`./check {pid} --tier quick`, run from {W}/verif) must exit 0 with no VIOLATION line on your final tree (KNOWN-FINDING lines are fine), in well under 2 minutes for the quick tier. Also run `./check {pid} --tier thorough` once at the end and `VERIF_SEED=2 ./check {pid} --tier quick`.
Validate that the check DETECTS breakage: temporarily introduce 2–3 realistic bugs into {W}/repo (e.g. off-by-one in a guard, swapped operands, dropped branch), confirm `./check {pid} --tier quick` prints a VIOLATION line with a sensible replay, and revert them (git checkout). Report which mutations you tried and the result.
{extra}
Prioritise: (1) a faithful executable model + spec + generator + harness with the correspondence run green and meaningful (it exercises the boundary cases the property names; print the distribution via tags), (2) the headline theorems proved for all inputs, (3) more theorems / wider model. Keep proofs robust (no 30-second simp calls). If a theorem you planned cannot be proved in the time, state the strongest version you can prove, name it `…_partial`, and say in the report what is missing – never weaken a statement silently and never leave a vacuous theorem.
Budget: about 2.5 hours of work. Do not stop early: when the minimum is done, extend the model and theorems.

REPORT-{pid}.md must contain: (1) what is modelled (which Go functions) and what is not; (2) list of theorems in Props.lean with one line each, and which DESIGN.md theorems are still missing; (3) every genuine defect found: failing input, observed vs expected, and whether you fixed it (commit hash + message) or recorded it as known (ID); (4) false alarms you hit and how you resolved them; (5) the mutations tried; (6) quick/thorough wall times and case counts; (7) a JSON object for tools/manifest_src.json: {{"text": ..., "note": ..., "technique": ...}} describing the level honestly; (8) anything the integrator must know (e.g. files outside GPy/{pid} you touched, new Common lemmas, hook commits).
Your final answer to me should be a brief summary plus the path of the report.""")
