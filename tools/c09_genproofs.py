#!/usr/bin/env python3
# generates GPy/C09/ProofsOwn.lean, ProofsOther.lean, ProofsFrame.lean (one lemma per instruction)
import os
D=os.path.join(os.path.dirname(os.path.dirname(os.path.abspath(__file__))), 'lean', 'GPy', 'C09') + os.sep
INS=[("lock","Instr.lock",""),("unlock","Instr.unlock",""),("brClosed","Instr.brClosed k","{k : Nat}"),("incRunning","Instr.incRunning",""),
("decRunning","Instr.decRunning",""),("brZero","Instr.brZero k","{k : Nat}"),("brPos","Instr.brPos k","{k : Nat}"),("jmpBack","Instr.jmpBack k","{k : Nat}"),
("broadcast","Instr.broadcast",""),("condWait","Instr.condWait",""),("storeClosing","Instr.storeClosing",""),("storeClosed","Instr.storeClosed",""),
("callbacks","Instr.callbacks",""),("closeDone","Instr.closeDone",""),("onceDo","Instr.onceDo k","{k : Nat}"),("onceEnd","Instr.onceEnd",""),
("waitDone","Instr.waitDone",""),("ret","Instr.ret eo k","{eo : Option Bool} {k : Nat}"),("brErr","Instr.brErr k","{k : Nat}"),("body","Instr.body",""),("work","Instr.work","")]
BIND=dict((n,b) for n,_,b in INS); TERM=dict((n,i) for n,i,_ in INS)
LPAT="⟨l1, l2, l3, l4, l5, l6, l7, l8, l9, l10, l11, l12, l13, l14, l15, l16, l17, l18, l19⟩"
UPAT="⟨u1, u2, u3, u4, u5, u6, u7, u8, u9, u10, u11, u12, u13, u14, u15, u16, u17, u18, u19⟩"
GPAT="⟨g1, g2, g3, g4, g5, g6, g7, g8, g9⟩"
HSL='''  have hsl : ({ins}) ≠ Instr.condWait → th.sleep = none := by
    intro hne
    cases hs : th.sleep with
    | none => rfl
    | some g => have := (hL.sleep g hs).1; rw [hi] at this; exact absurd (Option.some.inj this) hne
'''
# ---------------- own ----------------
def own(name, body):
    ins=TERM[name]
    return f'''theorem own_{name} {{P : Kind → List Instr}} {{A : Annot}} {{sh sh' : Shared}} {{t : Nat}} {{th th' : Thread}} {{a : Abs}} {BIND[name]}
    (hS : Sound (P th.kind) A) (ha : A.at th.pc th.err = some a) (hi : (P th.kind)[th.pc]? = some ({ins}))
    (hL : Local P sh t th a) (hst : th.started = true) (hG : GS sh) (hholds : (th.holds : Int) ≤ sh.running)
    (hx : execI ({ins}) sh t th = some (sh', th')) : OwnOK P A sh' t th th' := by
  unfold OwnOK
  have hok := hS.ok _ _ _ ha
  rw [hi] at hok
  obtain ⟨l, htr, hall⟩ := hok
{HSL.format(ins=ins)}  obtain {LPAT} := hL
  obtain {GPAT} := hG
{body}
'''
one='''  succs hall
  obtain ⟨b, hb, hle⟩ := okSucc_elim hall
'''
def osingle(name, pre_pat, extra_before="", hx_pat="⟨rfl, rfl⟩", simp_extra=""):
    pre = f"  obtain ⟨{pre_pat}, rfl⟩ := htr\n" if pre_pat else "  subst htr\n"
    return own(name, f'''  simp [transfer] at htr
{pre}{one}{extra_before}  simp [execI{simp_extra}] at hx
  obtain {hx_pat} := hx
  refine ⟨rfl, b, by simpa [Thread.goto] using hb, Local.weaken ?_ hle⟩
  fin_local''')
def obranch(name, cond):
    return own(name, f'''  simp [transfer] at htr
  obtain ⟨hpre, rfl⟩ := htr
  succs hall
  obtain ⟨h1, h2⟩ := hall
  obtain ⟨b1, hb1, hle1⟩ := okSucc_elim h1
  obtain ⟨b2, hb2, hle2⟩ := okSucc_elim h2
  have hm : sh.mu = some t := l1.mp ⟨hpre, hsl (by simp)⟩
  simp [execI] at hx
  obtain ⟨rfl, rfl⟩ := hx
  by_cases hc : {cond}
  · refine ⟨rfl, b1, by simpa [Thread.br, hc] using hb1, Local.weaken ?_ hle1⟩
    fin_local
  · refine ⟨rfl, b2, by simpa [Thread.br, hc] using hb2, Local.weaken ?_ hle2⟩
    fin_local''')
HM = "  have hm : sh.mu = some t := l1.mp ⟨by simp_all, hsl (by simp)⟩\n"
OWN=[]
OWN.append(osingle("lock", "⟨hmu, howe⟩", hx_pat="⟨hfree, rfl, rfl⟩"))
OWN.append(osingle("unlock", "⟨hmu, howe⟩", HM, simp_extra=", hm"))
OWN.append(own("brClosed", '''  simp [execI] at hx
  obtain ⟨rfl, rfl⟩ := hx
  by_cases hh : a.held > 0
  · simp [transfer, hh] at htr
    obtain ⟨hpre, rfl⟩ := htr
    succs hall
    obtain ⟨b, hb, hle⟩ := okSucc_elim hall
    have hm : sh.mu = some t := l1.mp ⟨hpre, hsl (by simp)⟩
    have hc : sh.closed = false := by
      cases h : sh.closed with
      | false => rfl
      | true => have := g2 h; omega
    refine ⟨rfl, b, by simpa [Thread.br, hc] using hb, Local.weaken ?_ hle⟩
    fin_local
  · simp [transfer, hh] at htr
    obtain ⟨hpre, rfl⟩ := htr
    succs hall
    obtain ⟨h1, h2⟩ := hall
    obtain ⟨b1, hb1, hle1⟩ := okSucc_elim h1
    obtain ⟨b2, hb2, hle2⟩ := okSucc_elim h2
    have hm : sh.mu = some t := l1.mp ⟨hpre, hsl (by simp)⟩
    by_cases hc : sh.closed = true
    · refine ⟨rfl, b1, by simpa [Thread.br, hc] using hb1, Local.weaken ?_ hle1⟩
      fin_local
    · refine ⟨rfl, b2, by simpa [Thread.br, hc] using hb2, Local.weaken ?_ hle2⟩
      fin_local'''))
OWN.append(osingle("incRunning", "⟨hmu, hnc⟩", HM))
HCL = """  have hcl : sh.closed = false := by
    cases hc : sh.closed with
    | false => rfl
    | true => have h0 := g2 hc; have h13 := l13; omega
"""
OWN.append(osingle("decRunning", "⟨hmu, hheld⟩", HM + HCL))
OWN.append(obranch("brZero", "sh.running = 0"))
OWN.append(obranch("brPos", "sh.running > 0"))
OWN.append(osingle("jmpBack", "hk"))
OWN.append(osingle("broadcast", "hmu", HM))
OWN.append(osingle("storeClosing", "hmu", HM))
OWN.append(osingle("storeClosed", "⟨⟨hmu, hz⟩, ho⟩", HM))
OWN.append(osingle("callbacks", "⟨⟨ho, hcl⟩, hcb⟩"))
OWN.append(osingle("closeDone", "⟨⟨ho, hcb⟩, hdn⟩", "  have hd : sh.doneClosed = false := by simp_all\n", simp_extra=", hd"))
OWN.append(osingle("onceEnd", "⟨⟨⟨⟨ho, hcl⟩, hcb⟩, hdn⟩, hmu⟩"))
OWN.append(osingle("waitDone", "⟨⟨hmu, ho⟩, hh⟩", hx_pat="⟨hd, rfl, rfl⟩"))
OWN.append(osingle("ret", ""))
OWN.append(osingle("body", "hh"))
OWN.append(osingle("work", ""))
OWN.append(own("brErr", '''  simp [execI] at hx
  obtain ⟨rfl, rfl⟩ := hx
  cases he : th.err
  · simp [transfer, he] at htr
    subst htr
    succs hall
    obtain ⟨b, hb, hle⟩ := okSucc_elim hall
    refine ⟨rfl, b, by simpa [Thread.br, he] using hb, Local.weaken ?_ hle⟩
    fin_local
  · simp [transfer, he] at htr
    subst htr
    succs hall
    obtain ⟨b, hb, hle⟩ := okSucc_elim hall
    refine ⟨rfl, b, by simpa [Thread.br, he] using hb, Local.weaken ?_ hle⟩
    fin_local'''))
OWN.append(own("condWait", '''  simp [transfer] at htr
  obtain ⟨⟨⟨⟨⟨hmu, ho⟩, hh⟩, hp⟩, howe⟩, rfl⟩ := htr
  succs hall
  obtain ⟨b, hb, hle⟩ := okSucc_elim hall
  cases hs : th.sleep with
  | none =>
    have hm : sh.mu = some t := l1.mp ⟨hmu, hs⟩
    simp [execI, hs, hm] at hx
    obtain ⟨rfl, rfl⟩ := hx
    refine ⟨rfl, a, by simpa using ha, ?_⟩
    fin_local
  | some g =>
    simp [execI, hs] at hx
    obtain ⟨⟨hg, hfree⟩, rfl, rfl⟩ := hx
    refine ⟨rfl, b, by simpa using hb, Local.weaken ?_ hle⟩
    fin_local'''))
OWN.append(own("onceDo", '''  simp [transfer] at htr
  obtain ⟨⟨⟨hmu, ho⟩, hh⟩, rfl⟩ := htr
  succs hall
  obtain ⟨h1, h2⟩ := hall
  obtain ⟨b1, hb1, hle1⟩ := okSucc_elim h1
  obtain ⟨b2, hb2, hle2⟩ := okSucc_elim h2
  cases hon : sh.once with
  | idle =>
    simp [execI, hon] at hx
    obtain ⟨rfl, rfl⟩ := hx
    refine ⟨rfl, b1, by simpa [Thread.goto] using hb1, Local.weaken ?_ hle1⟩
    fin_local
  | done =>
    simp [execI, hon] at hx
    obtain ⟨rfl, rfl⟩ := hx
    refine ⟨rfl, b2, by simpa [Thread.goto] using hb2, Local.weaken ?_ hle2⟩
    fin_local
  | active v => simp [execI, hon] at hx'''))
# ---------------- other / frame ----------------
def simple(tac, pat="⟨rfl, rfl⟩", pre="", extra=""):
    return pre+f"  simp [execI{extra}] at hx\n  obtain {pat} := hx\n  {tac}"
DEC="""  have hpos : sh.running > 0 := by
    have : a.held > 0 := by simp_all
    omega
  have hc : sh.closed = false := by
    cases h : sh.closed with
    | false => rfl
    | true => have := g2 h; omega
  have hp : sh.pend = false := by
    cases h : sh.pend with
    | false => rfl
    | true => have := (g5 h).1; omega
"""
def prep(tac, frame):
    d={
 "lock": simple(tac,"⟨hfree, rfl, rfl⟩"),
 "unlock": simple(tac,pre=HM, extra=", hm"),
 "brClosed": simple(tac), "brZero": simple(tac), "brPos": simple(tac), "jmpBack": simple(tac), "ret": simple(tac), "brErr": simple(tac), "body": simple(tac), "work": simple(tac),
 "incRunning": simple(tac,pre=HM), "decRunning": simple(tac,pre=HM+(DEC if frame else "")), "broadcast": simple(tac,pre=HM), "storeClosing": simple(tac,pre=HM), "storeClosed": simple(tac,pre=HM),
 "callbacks": simple(tac), "onceEnd": simple(tac),
 "closeDone": simple(tac,pre="  have hd : sh.doneClosed = false := by simp_all\n", extra=", hd"),
 "waitDone": simple(tac,"⟨hd, rfl, rfl⟩"),
 "condWait": f"""  cases hs : th.sleep with
  | none =>
    have hm : sh.mu = some t := l1.mp ⟨by simp_all, hs⟩
    simp [execI, hs, hm] at hx
    obtain ⟨rfl, rfl⟩ := hx
    {tac}
  | some g =>
    simp [execI, hs] at hx
    obtain ⟨⟨hg, hfree⟩, rfl, rfl⟩ := hx
    {tac}""",
 "onceDo": f"""  cases hon : sh.once with
  | idle =>
    simp [execI, hon] at hx
    obtain ⟨rfl, rfl⟩ := hx
    {tac}
  | done =>
    simp [execI, hon] at hx
    obtain ⟨rfl, rfl⟩ := hx
    {tac}
  | active v => simp [execI, hon] at hx""",
    }
    return d
OTH=[]; FR=[]
po=prep("oth_tac", False); pf=prep("frame_tac", True)
po["broadcast"] += "\n  intro g hg; have := (u17 g hg).2.1; omega"
for name,ins,b in INS:
    OTH.append(f'''theorem oth_{name} {{P : Kind → List Instr}} {{sh sh' : Shared}} {{t u : Nat}} {{th th' thu : Thread}} {{a au : Abs}} {{l : List (Nat × Bool × Abs)}} {b}
    (hne : u ≠ t) (hLu : Local P sh u thu au) (hLt : Local P sh t th a)
    (hsl : ({ins}) ≠ Instr.condWait → th.sleep = none)
    (htr : transfer ({ins}) th.pc th.err a = some l) (hx : execI ({ins}) sh t th = some (sh', th')) :
    Local P sh' u thu au := by
  obtain {LPAT} := hLt
  obtain {UPAT} := hLu
  have hne' : t ≠ u := fun h => hne h.symm
  simp [transfer] at htr
{po[name]}
''')
    FR.append(f'''theorem frame_{name} {{P : Kind → List Instr}} {{sh sh' : Shared}} {{t : Nat}} {{th th' : Thread}} {{a : Abs}} {{l : List (Nat × Bool × Abs)}} {b}
    (hG : GS sh) (hLt : Local P sh t th a) (hholds : (th.holds : Int) ≤ sh.running)
    (hsl : ({ins}) ≠ Instr.condWait → th.sleep = none)
    (htr : transfer ({ins}) th.pc th.err a = some l) (hx : execI ({ins}) sh t th = some (sh', th')) :
    Frame sh sh' t th th' := by
  obtain {LPAT} := hLt
  obtain {GPAT} := hG
  simp [transfer] at htr
{pf[name]}
''')
HDR='''/-
C09 proofs, {what}.  GENERATED by tools/c09_genproofs.py (one lemma per instruction, same script each); edit the generator.
-/
import GPy.C09.ProofsBase
set_option linter.unusedVariables false
namespace GPy.C09

'''
open(D+'ProofsOwn.lean','w').write(HDR.format(what="own-thread steps: after its step the thread's next annotation holds")+
'''macro "fin_local" : tactic => `(tactic|
  (constructor <;> simp_all [Thread.goto, Thread.br, Thread.panic] <;> (try omega)))

'''+"\n".join(OWN)+"\nend GPy.C09\n")
open(D+'ProofsOther.lean','w').write(HDR.format(what="interference freedom: another thread's facts survive the step")+
'''set_option hygiene false in
macro "oth_tac" : tactic => `(tactic|
  (constructor <;> simp_all <;> (try omega)))

'''+"\n".join(OTH)+"\nend GPy.C09\n")
open(D+'ProofsFrame.lean','w').write(HDR.format(what="shared-state invariants and frame facts per instruction")+
'''set_option hygiene false in
macro "frame_tac" : tactic => `(tactic|
  (refine ⟨?_, ?_, ?_, ?_, ?_, ?_, ?_, ?_⟩ <;> (try constructor) <;> simp_all [Thread.goto, Thread.br, Thread.panic] <;> (try omega)))

'''+"\n".join(FR)+"\nend GPy.C09\n")
