#!/usr/bin/env python3
"""print the prompt for an extension round on an already merged property kernel"""
import json, sys
pid = sys.argv[1]; goals = sys.argv[2]
p = {json.loads(l)["id"]: json.loads(l) for l in open("/verif/properties.jsonl")}[pid]
W = f"/tmp/w-{pid}"
print(f"""You are extending one piece of a Lean-4 machine-checked verification framework for go-python/gpython (a Python 3.4 interpreter written in Go). The kernel for property {pid} already exists and is merged; you do a second, deepening round on it. Work ONLY inside your private workspace {W}; never modify /repo or /verif (read-only for you).

Workspace: {W}/verif is a private copy of the framework (READ FIRST: BUILDING.md; DESIGN.md sections 2, 3, 4, 6, "### {pid}" and section 12; reports/REPORT-{pid}.md = what the first round built, proved and left open; then the kernel itself: lean/GPy/{pid}/*.lean, harness/{pid.lower()}.go, checks/{pid.lower()}.py). {W}/repo is a private git worktree of gpython where you may add `fix: ...` commits for genuine small defects (one defect per commit; `go test -vet=off -count=1 ./...` must stay green). Always `export VERIF_REPO={W}/repo GOFLAGS=-mod=mod GOPROXY=off GOSUMDB=off GOTOOLCHAIN=local` in every shell call. No network. Build: `python3 tools/mkdrivers.py && cd lean && lake build GPy.{pid}.Props gpymodel-{pid}`; run: `./check {pid} --tier quick` from {W}/verif (must exit 0 with no VIOLATION on your final tree; also run thorough and VERIF_SEED=2 quick at the end).

Property (fixed text): {p['title']} — {p['statement']}

Goals of this round, in priority order:
{goals}

Rules (as in BUILDING.md): no sorry/axiom/native_decide; theorems universally quantified; state partial results as `…_partial` with the exclusion named; model the code that exists; keep the quick tier under ~2 minutes; do not weaken or delete existing theorems or cases (you may generalise them). Validate with 2–3 fresh mutations of {W}/repo that the check still detects breakage (revert them).
At the end write {W}/verif/REPORT-{pid}-ext.md (use a shell heredoc if the Write tool refuses): what you added (model/spec/gen/theorems), theorems now proved vs still missing, defects found (fix commit hashes or known IDs), mutations tried, quick/thorough times and case counts, an updated JSON object {{"text","note","technique"}} for tools/manifest_src.json describing the level honestly, and anything the integrator must know (files touched outside lean/GPy/{pid}, harness/{pid.lower()}.go, checks/{pid.lower()}.py). Your final answer: a brief summary plus the report path. Budget about 2 hours; do not stop early.""")
