#!/bin/bash
# tools/goint_mutation_test.sh <patch.diff | sed-expression> : apply a change to a scratch copy of py/int.go, regenerate the
# Lean translation from it, and say which `generated_*`/gen_* obligations break (nothing in /repo or lean/GPy is left changed)
set -u
cd /verif
S=/tmp/goint-mut.$$; mkdir -p $S/py; cp /repo/py/int.go $S/py/int.go
M="$1"; [ -f "$M" ] && M=$(realpath "$M")
if [ -f "$M" ]; then (cd $S && patch -p1 -s < "$M") || exit 2; else sed -i "$M" $S/py/int.go; fi
diff -q /repo/py/int.go $S/py/int.go >/dev/null && { echo "mutation did not change py/int.go"; rm -rf $S; exit 2; }
G=lean/GPy/C07/Generated/IntCore.lean; cp $G $S/IntCore.lean.orig
export GOFLAGS=-mod=mod GOPROXY=off GOSUMDB=off GOTOOLCHAIN=local
if (cd extract/goint && go run . $S /verif/$G) 2> $S/err; then
  (cd lean && lake build GPy.C07.Props 2>&1 | grep "^error" | grep -v "Lean exited\|build failed" | cut -c1-160 | head -8)
  [ ${PIPESTATUS[0]} ] ; echo "translated; obligations above (none listed = all still proved)"
else echo "translator refused: $(cat $S/err)"; fi
cp $S/IntCore.lean.orig $G; rm -rf $S
(cd lean && lake build GPy.C07.Props >/dev/null 2>&1)
