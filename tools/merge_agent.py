#!/usr/bin/env python3
"""tools/merge_agent.py Cxx : merge a build agent's workspace /tmp/w-Cxx into /verif and /repo"""
import sys, os, subprocess, shutil, re, json
P = sys.argv[1]; p = P.lower(); W = f"/tmp/w-{P}"
EXT = ("-" + sys.argv[2]) if len(sys.argv) > 2 else ""
def sh(cmd, **kw): return subprocess.run(cmd, shell=True, text=True, capture_output=True, **kw)
# 1. files
src = f"{W}/verif"
for d in [f"lean/GPy/{P}"]:
    if os.path.isdir(f"/verif/{d}"): shutil.rmtree(f"/verif/{d}")
    shutil.copytree(f"{src}/{d}", f"/verif/{d}")
for f in os.listdir(f"{src}/harness"):
    if f.endswith(".go") and f not in ("main.go", "c07.go") and (f.startswith(p) or not os.path.exists(f"/verif/harness/{f}")):
        shutil.copy(f"{src}/harness/{f}", f"/verif/harness/{f}"); print("harness:", f)
for f in os.listdir(f"{src}/checks"):
    if f.startswith(p) and f.endswith(".py"):
        shutil.copy(f"{src}/checks/{f}", f"/verif/checks/{f}"); print("checks:", f)
for d in ["extract", f"corpus/{P}", f"facts"]:
    if os.path.isdir(f"{src}/{d}"):
        r = sh(f"rsync -a --update --exclude '*.test' {src}/{d}/ /verif/{d}/"); print("rsync", d, r.returncode)
shutil.copy(f"{src}/REPORT-{P}{EXT}.md", f"/verif/reports/REPORT-{P}{EXT}.md") if os.path.exists(f"{src}/REPORT-{P}{EXT}.md") and (os.makedirs("/verif/reports", exist_ok=True) or True) else None
# other changed files outside the usual places
r = sh(f"cd {src} && diff -rq . /verif -x .lake -x work -x replays -x evidence -x .git -x __pycache__ -x go.sum -x go.mod | grep -v 'Only in /verif' | head -40")
print("remaining differences:\n" + r.stdout)
# 2. Main.lean / GPy.lean
m = open("/verif/lean/Main.lean").read()
if f"GPy.{P}.Gen" not in m and f'"{P}"' not in m:
    am = open(f"{src}/lean/Main.lean").read()
    imps = [l for l in am.splitlines() if l.startswith("import") and P in l]
    arms = [l for l in am.splitlines() if f'"{P}' in l and "=>" in l]
    m = "\n".join(imps) + "\n" + m
    m = m.replace('    | _ => IO.eprintln s!"unknown property {prop}"; return 2', "\n".join(arms) + '\n    | _ => IO.eprintln s!"unknown property {prop}"; return 2')
    open("/verif/lean/Main.lean", "w").write(m); print("Main.lean arms:", arms, imps)
g = open("/verif/lean/GPy.lean").read()
if f"GPy.{P}.Props" not in g:
    open("/verif/lean/GPy.lean", "w").write(g.rstrip("\n") + f"\nimport GPy.{P}.Props\n")
# 3. repo commits
base = sh(f"git -C {W}/repo merge-base HEAD $(git -C /repo rev-parse HEAD)").stdout.strip()
commits = sh(f"git -C {W}/repo log --reverse --format='%H %s' {base}..HEAD").stdout.strip().splitlines()
print("agent commits:", len(commits))
mapping = {}
st = sh(f"git -C {W}/repo status --short").stdout
if st.strip(): print("WARNING: agent worktree dirty:\n" + st)
for c in commits:
    h, subj = c.split(" ", 1)
    r = sh(f"git -C /repo cherry-pick {h}")
    if r.returncode != 0:
        print("CHERRY-PICK CONFLICT on", h, subj, "\n", r.stdout[-500:], r.stderr[-500:]); sys.exit(3)
    nh = sh("git -C /repo rev-parse --short HEAD").stdout.strip()
    mapping[h[:7]] = nh; print(" picked", h[:7], "->", nh, subj[:80])
# 4. known findings
mine = open("/verif/KNOWN_FINDINGS.txt").read()
theirs = open(f"{src}/KNOWN_FINDINGS.txt").read().splitlines()
add = []
for l in theirs:
    if f"property={P}" in l and l not in mine:
        for o, n in mapping.items():
            l = re.sub(r"\b" + o + r"[0-9a-f]*\b", n, l)
        add.append(l)
if add:
    open("/verif/KNOWN_FINDINGS.txt", "a").write("\n".join(add) + "\n"); print("known-findings lines added:", len(add))
json.dump(mapping, open(f"/verif/reports/commits-{P}.json", "w"), indent=1)
