#!/bin/sh
# tools/mkagentws.sh Cxx : scratch workspace for building one property kernel in isolation
set -e
P=$1
W=/tmp/w-$P
rm -rf $W; mkdir -p $W
git -C /repo worktree prune
git -C /repo worktree add --detach $W/repo HEAD >/dev/null 2>&1
rsync -a --exclude .git --exclude work --exclude replays /verif/ $W/verif/
mkdir -p $W/verif/work
(cd $W/verif/harness && GOFLAGS=-mod=mod go mod edit -replace github.com/go-python/gpython=$W/repo)
echo $W
