#!/usr/bin/env python3
"""Record the fingerprints of every property's anchored Go files as the baseline 'model last validated against this code'.
Run after every merge into /repo (only on a tree on which all checks are green)."""
import sys, os, json
sys.path.insert(0, "/verif/checks")
import common
os.makedirs("/verif/facts/fingerprints", exist_ok=True)
for l in open("/verif/properties.jsonl"):
    p = json.loads(l)["id"]
    cur = common.fingerprints(p)
    if cur is None:
        print("fingerprint failed for", p); continue
    with open(f"/verif/facts/fingerprints/{p}.tsv", "w") as f:
        for (a, b, c), n in sorted(cur.items()):
            for _ in range(n):
                f.write(f"{a}\t{b}\t{c}\n")
print("fingerprints recorded")
