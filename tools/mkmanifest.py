#!/usr/bin/env python3
"""Regenerate MANIFEST.json from tools/manifest_src.json (claimed checks) + properties.jsonl (everything else → not_applicable)."""
import json, os
ROOT = os.path.dirname(os.path.dirname(os.path.abspath(__file__)))
src = json.load(open(os.path.join(ROOT, "tools", "manifest_src.json")))
props = [json.loads(l)["id"] for l in open(os.path.join(ROOT, "properties.jsonl"))]
checks = []
for pid in props:
    c = src["checks"].get(pid)
    if not c:
        continue
    checks.append({
        "property_id": pid,
        "quick_cmd": f"./check {pid} --tier quick",
        "thorough_cmd": f"./check {pid} --tier thorough",
        "evidence_file": f"/verif/evidence/{pid}.json",
        "replay_cmd_template": "./check replay {path}",
        "engine": "lean4-proof+correspondence",
        "level_claimed": {"category": "proof", "text": c["text"], "design_ref": c.get("design_ref", f"DESIGN.md §7 {pid}")},
        "level_note": c["note"],
        "technique": c.get("technique", "Lean 4 theorem about an executable model + differential correspondence model/implementation"),
    })
na = [{"property_id": p, "reason": src["not_applicable"].get(p, "check not built yet in this round (planned: DESIGN.md §7); not claimed until its theorems and correspondence run exist")}
      for p in props if p not in src["checks"]]
m = {
    "version": 1,
    "setup_cmd": "./setup.sh",
    "hooks": {
        "guard": "verif",
        "enable": "go build -tags verif (the harness under /verif/harness is always built with -tags verif against /repo's working tree)",
        "baseline_off_cmd": "cd /repo && GOFLAGS=-mod=mod GOPROXY=off GOSUMDB=off GOTOOLCHAIN=local go test -vet=off -count=1 ./...",
        "source_commits": src.get("hook_commits", []),
        "add_only": True,
    },
    "engines": [{"name": "lean4-proof+correspondence", "path": "/verif/lean + /verif/harness + /verif/checks",
                 "serves_properties": [c["property_id"] for c in checks],
                 "kind_free_text": "Lean 4 model/spec/theorems (lake build + axiom audit) tied to /repo by a compiled model driver (gpymodel) and a Go harness (gpyh) run on the same generated cases"}],
    "checks": checks,
    "not_applicable": na,
    "notes": src.get("notes", ""),
}
json.dump(m, open(os.path.join(ROOT, "MANIFEST.json"), "w"), indent=1)
print("checks:", [c["property_id"] for c in checks], "not claimed:", len(na))
