#!/bin/sh
# tools/mkseedws.sh <name> : scratch worktree of /repo for an independent mutation author
set -e
W=/tmp/seed-$1
rm -rf $W
git -C /repo worktree prune
git -C /repo worktree add --detach $W HEAD >/dev/null 2>&1
echo $W
