#!/bin/bash
# run every claimed check (quick by default) and print one line each
T=${1:-quick}
cd /verif
for p in $(python3 -c "import json;print(' '.join(c['property_id'] for c in json.load(open('MANIFEST.json'))['checks']))"); do
  s=$(date +%s); ./check $p --tier $T > work/runall-$p.log 2>&1; rc=$?; e=$(date +%s)
  echo "$p rc=$rc $(grep -c VIOLATION work/runall-$p.log) violations, $(grep -c KNOWN-FINDING work/runall-$p.log) known, $((e-s))s"
done
