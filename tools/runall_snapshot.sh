#!/bin/bash
# run inside a `vp run --with-repo` snapshot: build everything there, then run every claimed check at tier $1 against the repo snapshot
T=${1:-thorough}
export VERIF_REPO=${VP_RUN_REPO:-/repo}
export GOFLAGS=-mod=mod GOPROXY=off GOSUMDB=off GOTOOLCHAIN=local
cd "$(dirname "$0")/.."
mkdir -p work evidence replays
python3 tools/mkdrivers.py
(cd lean && lake build 2>&1 | tail -3)
for p in $(python3 -c "import json;print(' '.join(c['property_id'] for c in json.load(open('MANIFEST.json'))['checks']))"); do
  s=$(date +%s); VERIF_SEED=${SEED:-1} ./check $p --tier $T > work/runall-$p.log 2>&1; rc=$?; e=$(date +%s)
  echo "$p tier=$T seed=${SEED:-1} rc=$rc $(grep -c VIOLATION work/runall-$p.log) violations, $(grep -c KNOWN-FINDING work/runall-$p.log) known, $((e-s))s"
  grep VIOLATION work/runall-$p.log | head -3
done
