#!/bin/bash
# tools/seed_intake.sh <seedname> <prop> : confirm a seeded change and run our check against it
set -u
N=$1; P=$2; W=/tmp/seed-$N; D=/verif/seeded/$N
export GOFLAGS=-mod=mod GOPROXY=off GOSUMDB=off GOTOOLCHAIN=local
mkdir -p $D
cd $W || exit 2
git diff -- . ':!demo_seed' ':!SEED.md' > $D/patch.diff
[ -s $D/patch.diff ] || { echo "empty patch"; exit 2; }
rm -rf $D/demo; cp -r demo_seed $D/demo 2>/dev/null; cp SEED.md $D/SEED.md 2>/dev/null
echo "== with change: build + tests"; go build ./... && go test -vet=off -count=1 ./... > /tmp/seed-$N.test 2>&1; T_WITH=$?; tail -3 /tmp/seed-$N.test
echo "== with change: demo"; timeout 300 go run ./demo_seed > /tmp/seed-$N.demo1 2>&1; D_WITH=$?; tail -3 /tmp/seed-$N.demo1
git stash -q -- $(git diff --name-only -- . ':!demo_seed' ':!SEED.md')
echo "== without change: demo"; timeout 300 go run ./demo_seed > /tmp/seed-$N.demo0 2>&1; D_WITHOUT=$?; tail -3 /tmp/seed-$N.demo0
git stash pop -q
echo "tests_with=$T_WITH demo_with=$D_WITH demo_without=$D_WITHOUT"
cd /repo && git apply --check $D/patch.diff || { echo "patch does not apply to /repo HEAD"; exit 3; }
git apply $D/patch.diff
cd /verif && timeout 3000 ./check $P --tier quick > $D/check_quick.out 2>&1; C=$?
git -C /repo checkout -- .
grep -m3 "VIOLATION" $D/check_quick.out
echo "check_exit=$C"
python3 - <<PY
import json
json.dump({"property": "$P", "seed": "$N", "tests_pass_with_change": $T_WITH == 0, "demo_fails_with_change": $D_WITH != 0,
 "demo_passes_without_change": $D_WITHOUT == 0, "check_quick_exit": $C,
 "ran": ["go build ./... && go test -vet=off -count=1 ./... (in scratch worktree, with change)", "go run ./demo_seed (with and without change)", "git -C /repo apply patch.diff; ./check $P --tier quick; git -C /repo checkout -- ."],
 "needs": open("$D/SEED.md").read()[:3000] if __import__("os").path.exists("$D/SEED.md") else ""}, open("$D/meta.json","w"), indent=1)
PY
