#!/bin/bash
# tools/seed_intake2.sh <seedname> <prop> [tier]: confirm a seeded change and run our check against it WITHOUT touching /repo:
# the check runs from a private copy of /verif with VERIF_REPO pointing at the author's scratch worktree (change applied there).
# Several intakes can run side by side.  (tools/seed_intake.sh is the variant that applies the patch to /repo itself.)
set -u
N=$1; P=$2; T=${3:-quick}; W=/tmp/seed-$N; D=/verif/seeded/$N; C=/tmp/intake-$N
export GOFLAGS=-mod=mod GOPROXY=off GOSUMDB=off GOTOOLCHAIN=local
mkdir -p $D
cd $W || exit 2
git diff -- . ':!demo_seed' ':!SEED.md' > $D/patch.diff
[ -s $D/patch.diff ] || { echo "empty patch"; exit 2; }
rm -rf $D/demo; cp -r demo_seed $D/demo 2>/dev/null; cp SEED.md $D/SEED.md 2>/dev/null
echo "== with change: build + tests"; go build ./... && go test -vet=off -count=1 ./... > /tmp/seed-$N.test 2>&1; T_WITH=$?; tail -3 /tmp/seed-$N.test
echo "== with change: demo"; timeout 300 go run ./demo_seed > /tmp/seed-$N.demo1 2>&1; D_WITH=$?; tail -3 /tmp/seed-$N.demo1
# NOT git stash: the stash stack is shared by all worktrees of /repo, concurrent intakes would swap their changes
git apply -R $D/patch.diff
echo "== without change: demo"; timeout 300 go run ./demo_seed > /tmp/seed-$N.demo0 2>&1; D_WITHOUT=$?; tail -3 /tmp/seed-$N.demo0
git apply $D/patch.diff
git diff -- . ':!demo_seed' ':!SEED.md' | cmp -s - $D/patch.diff || { echo "worktree does not carry the recorded patch any more"; exit 4; }
echo "tests_with=$T_WITH demo_with=$D_WITH demo_without=$D_WITHOUT"
git -C /repo apply --check $D/patch.diff || { echo "patch does not apply to /repo HEAD"; }
# the check must not see the demo directory / SEED.md as part of the repository under test: move them aside
mkdir -p /tmp/seed-$N.aside; mv $W/demo_seed $W/SEED.md /tmp/seed-$N.aside/ 2>/dev/null
rm -rf $C; mkdir -p $C
rsync -a --exclude .git --exclude replays /verif/ $C/verif/
(cd $C/verif/harness && go mod edit -replace github.com/go-python/gpython=$W)
cd $C/verif && VERIF_REPO=$W timeout 3000 ./check $P --tier $T > $D/check_$T.out 2>&1; CX=$?
grep -m3 "VIOLATION" $D/check_$T.out
echo "check_exit=$CX violations=$(grep -c VIOLATION $D/check_$T.out) nofail=$(grep -c no-failing-input-found $D/check_$T.out)"
python3 - <<PY
import json,glob,os
reps=[]
for f in sorted(glob.glob("$C/verif/replays/$P/*.json"))[:3]:
    r=json.load(open(f)); s="replay: %s %s | impl: %s | spec: %s" % (r.get("kind"), (r.get("input") or str(r.get("broken")))[:160], str(r.get("impl"))[:80], str(r.get("spec"))[:80]); print("  "+s); reps.append(s)
json.dump({"property": "$P", "seed": "$N", "tests_pass_with_change": $T_WITH == 0, "demo_fails_with_change": $D_WITH != 0,
 "demo_passes_without_change": $D_WITHOUT == 0, "check_${T}_exit": $CX, "first_replays": reps,
 "ran": ["go build ./... && go test -vet=off -count=1 ./... (in scratch worktree, with change)", "go run ./demo_seed (with and without change)", "private copy of /verif, VERIF_REPO=<scratch worktree with the change>: ./check $P --tier $T"],
 "needs": open("$D/SEED.md").read()[:3000] if os.path.exists("$D/SEED.md") else ""}, open("$D/meta.json","w"), indent=1)
PY
mv /tmp/seed-$N.aside/* $W/ 2>/dev/null; rmdir /tmp/seed-$N.aside
rm -rf $C
