#!/usr/bin/env python3
import json, sys
pid, name = sys.argv[1], sys.argv[2]
hint = sys.argv[3] if len(sys.argv) > 3 else ""
p = {json.loads(l)["id"]: json.loads(l) for l in open("/verif/properties.jsonl")}[pid]
W = f"/tmp/seed-{name}"
print(f"""You are a careful adversarial engineer. In the scratch git worktree {W} (a checkout of go-python/gpython, a Python 3.4 interpreter written in Go) make ONE small source change that BREAKS the following semantic property while the project still compiles and its existing test suite still passes. Work only inside {W}; do not read or write anything under /verif or /repo.

Property: {p['title']}
{p['statement']}
(Quantifier: {p['quantifier']['text']})
Relevant files: {', '.join(p['anchors']['files'])}

Requirements for the change:
- It must need something SPECIFIC to manifest — an unusual input/boundary value, a particular multi-step sequence, a particular interleaving, or two cooperating sites that each look fine alone — not something ordinary use or the existing tests would expose at once. It should look like a plausible refactoring slip or optimisation, not sabotage (no magic constants that only serve to hide it). {hint}
- The project must still build and the existing tests must pass: run `cd {W} && export GOFLAGS=-mod=mod GOPROXY=off GOSUMDB=off GOTOOLCHAIN=local && go build ./... && go test -vet=off -count=1 ./...` (no network is available).
- Provide a demonstration: a small Go test file or Go program (placed under {W}/demo_seed/ as its own package `main` using the gpython packages, runnable with `go run ./demo_seed`) that exits non-zero / prints FAIL with your change and exits zero / prints PASS without it. Verify both directions yourself (use `git stash` or `git diff > /tmp/x.diff; git checkout -- <files>` to test the unchanged behaviour; the demo directory itself stays).
Deliver: leave the change applied in the worktree (uncommitted), the demo under {W}/demo_seed/, and write {W}/SEED.md with: the files/lines changed, why it breaks the property, exactly what is needed for it to manifest (the triggering input/sequence), and the commands you ran with their results. Your final answer: a 5-line summary.""")
