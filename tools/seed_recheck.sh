#!/bin/bash
# tools/seed_recheck.sh <seedname> <prop> [tier]: re-apply a kept seeded change to /repo, run the check, undo
N=$1; P=$2; T=${3:-quick}; D=/verif/seeded/$N
cd /repo && git apply --check $D/patch.diff || { echo "patch does not apply"; exit 3; }
git apply $D/patch.diff
cd /verif && timeout 3000 ./check $P --tier $T > $D/check_$T.out 2>&1; C=$?
git -C /repo checkout -- .
echo "$N $P $T exit=$C violations=$(grep -c VIOLATION $D/check_$T.out) nofail=$(grep -c no-failing-input-found $D/check_$T.out)"
python3 - <<PY
import json,glob
for f in sorted(glob.glob("/verif/replays/$P/*.json"))[:3]:
    r=json.load(open(f)); print("  replay:", r.get("kind"), (r.get("input") or str(r.get("broken")))[:160], "| impl:", str(r.get("impl"))[:80], "| spec:", str(r.get("spec"))[:80])
PY
rm -rf /verif/replays/$P
