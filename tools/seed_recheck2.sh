#!/bin/bash
# tools/seed_recheck2.sh <seedname> <prop> [tier]: re-run our check against a kept seeded change WITHOUT touching /repo:
# scratch worktree of /repo HEAD + patch, private copy of /verif, VERIF_REPO; everything removed afterwards.
N=$1; P=$2; T=${3:-quick}; D=/verif/seeded/$N; W=/tmp/reseed-$N; C=/tmp/recheck-$N
export GOFLAGS=-mod=mod GOPROXY=off GOSUMDB=off GOTOOLCHAIN=local
rm -rf $W $C; git -C /repo worktree prune; git -C /repo worktree add --detach $W HEAD >/dev/null 2>&1 || exit 2
git -C $W apply $D/patch.diff || { echo "$N: patch does not apply to /repo HEAD"; git -C /repo worktree remove --force $W; exit 3; }
mkdir -p $C; rsync -a --exclude .git --exclude replays /verif/ $C/verif/
(cd $C/verif/harness && go mod edit -replace github.com/go-python/gpython=$W)
(cd $C/verif && VERIF_REPO=$W timeout 3000 ./check $P --tier $T > $D/check_$T.out 2>&1); CX=$?
echo "$N $P $T exit=$CX violations=$(grep -c VIOLATION $D/check_$T.out) nofail=$(grep -c no-failing-input-found $D/check_$T.out)"
python3 - <<PY
import json,glob
reps=[]
for f in sorted(glob.glob("$C/verif/replays/$P/*.json"))[:3]:
    r=json.load(open(f)); s="replay: %s %s | impl: %s | spec: %s" % (r.get("kind"), (r.get("input") or str(r.get("broken")))[:160], str(r.get("impl"))[:80], str(r.get("spec"))[:80]); print("  "+s); reps.append(s)
p="$D/meta.json"; m=json.load(open(p)); m["recheck_${T}_exit"]=$CX; m["recheck_replays"]=reps; m["check_quick_exit"]=$CX if "$T"=="quick" else m.get("check_quick_exit")
json.dump(m,open(p,"w"),indent=1)
PY
git -C /repo worktree remove --force $W; rm -rf $C
